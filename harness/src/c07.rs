// PROP: C07  FAMILIES: poly=run_poly
//! C07 -- every polynomial multiplication strategy returns the exact ring product.  Family `poly`.
//!
//! `poly <op> <field> <args..>`, field tag `b` / `x` / `bx` / `xb` (mixed: left operand over the first field).
//! Polynomials are raw coefficient lists `[c0,c1,..]` (canonical values; x elements `(a;b;c)`), stored leading
//! zeros kept as given (`Polynomial::new`).  Replies: `ok:<coefficients()>`.
//! Oracle on the implementation (independent of the Lean model): schoolbook product computed here with u128
//! arithmetic on canonical values (extension field: X^3 = X - 1 by hand).
use crate::util::*;
use std::io::{BufRead, BufReader, Write};
use std::process::{Command, Stdio};
use twenty_first::prelude::*;

// ---- independent reference arithmetic -----------------------------------------------------------------
fn mulp(a: u64, b: u64) -> u64 {
    ((a as u128 * b as u128) % P as u128) as u64
}
fn addp(a: u64, b: u64) -> u64 {
    ((a as u128 + b as u128) % P as u128) as u64
}
fn subp(a: u64, b: u64) -> u64 {
    ((a as u128 + P as u128 - b as u128) % P as u128) as u64
}
pub type X3 = [u64; 3];
pub trait RF: Copy + PartialEq + std::fmt::Debug {
    fn zero() -> Self;
    fn one() -> Self;
    fn add(self, o: Self) -> Self;
    fn mul(self, o: Self) -> Self;
    fn fmtl(xs: &[Self]) -> String;
}
impl RF for u64 {
    fn zero() -> Self {
        0
    }
    fn one() -> Self {
        1
    }
    fn add(self, o: Self) -> Self {
        addp(self, o)
    }
    fn mul(self, o: Self) -> Self {
        mulp(self, o)
    }
    fn fmtl(xs: &[Self]) -> String {
        fmt_list_u64(xs)
    }
}
impl RF for X3 {
    fn zero() -> Self {
        [0, 0, 0]
    }
    fn one() -> Self {
        [1, 0, 0]
    }
    fn add(self, o: Self) -> Self {
        [addp(self[0], o[0]), addp(self[1], o[1]), addp(self[2], o[2])]
    }
    fn mul(self, o: Self) -> Self {
        let [c, b, a] = self; // c + bX + aX^2
        let [f, e, d] = o;
        let t4 = mulp(a, d);
        let t3 = addp(mulp(a, e), mulp(b, d));
        let t2 = addp(addp(mulp(a, f), mulp(b, e)), mulp(c, d));
        let t1 = addp(mulp(b, f), mulp(c, e));
        let t0 = mulp(c, f);
        // X^3 = X - 1, X^4 = X^2 - X
        [subp(t0, t3), subp(addp(t1, t3), t4), addp(t2, t4)]
    }
    fn fmtl(xs: &[Self]) -> String {
        let v: Vec<String> = xs.iter().map(|c| format!("({};{};{})", c[0], c[1], c[2])).collect();
        format!("[{}]", v.join(","))
    }
}
pub fn lift(a: u64) -> X3 {
    [a, 0, 0]
}
pub fn norm<T: RF>(mut v: Vec<T>) -> Vec<T> {
    while v.last().is_some_and(|c| *c == T::zero()) {
        v.pop();
    }
    v
}
/// schoolbook product of two coefficient vectors (any storage), normalised
pub fn school<T: RF>(a: &[T], b: &[T]) -> Vec<T> {
    let a = norm(a.to_vec());
    let b = norm(b.to_vec());
    if a.is_empty() || b.is_empty() {
        return vec![];
    }
    let mut r = vec![T::zero(); a.len() + b.len() - 1];
    for (i, &x) in a.iter().enumerate() {
        if x == T::zero() {
            continue;
        }
        for (j, &y) in b.iter().enumerate() {
            r[i + j] = r[i + j].add(x.mul(y));
        }
    }
    norm(r)
}
pub fn bvals(p: &[BFieldElement]) -> Vec<u64> {
    p.iter().map(|c| c.value()).collect()
}
pub fn xvals(p: &[XFieldElement]) -> Vec<X3> {
    p.iter().map(|c| [c.coefficients[0].value(), c.coefficients[1].value(), c.coefficients[2].value()]).collect()
}
fn arg_b(a: &Arg) -> Option<Vec<u64>> {
    Some(a.u64s()?.into_iter().map(|v| v % P).collect())
}
fn arg_x(a: &Arg) -> Option<Vec<X3>> {
    Some(xvals(&a.xfes()?))
}
fn arg_x1(a: &Arg) -> Option<X3> {
    Some(xvals(&[a.xfe()?])[0])
}
type BP = Polynomial<'static, BFieldElement>;
type XP = Polynomial<'static, XFieldElement>;
fn bp(v: &[u64]) -> BP {
    Polynomial::new(v.iter().map(|&c| BFieldElement::new(c)).collect())
}
fn xe(c: X3) -> XFieldElement {
    XFieldElement::new([BFieldElement::new(c[0]), BFieldElement::new(c[1]), BFieldElement::new(c[2])])
}
fn xp(v: &[X3]) -> XP {
    Polynomial::new(v.iter().map(|&c| xe(c)).collect())
}

/// thresholds as regenerated from the source by the translator (lean/TF/Gen/Consts.lean); fall back to the
/// values at the time of writing if the file cannot be found (the verdict never depends on them: they only steer
/// the generator towards the dispatch boundaries and label the distribution)
pub fn thresholds() -> (i64, usize) {
    let mut t = (256i64, 64usize);
    let mut dir = std::env::current_exe().ok();
    for _ in 0..6 {
        dir = dir.and_then(|d| d.parent().map(|p| p.to_path_buf()));
        if let Some(d) = &dir {
            let f = d.join("lean/TF/Gen/Consts.lean");
            if let Ok(s) = std::fs::read_to_string(&f) {
                for l in s.lines() {
                    let w: Vec<&str> = l.split_whitespace().collect();
                    if w.len() >= 6 && w[0] == "def" && w[4] == ":=" {
                        if w[1] == "FAST_MULTIPLY_CUTOFF_THRESHOLD" {
                            t.0 = w[5].parse().unwrap_or(t.0);
                        }
                        if w[1] == "SQUARE_CUTOFF" {
                            t.1 = w[5].parse().unwrap_or(t.1);
                        }
                    }
                }
                break;
            }
        }
    }
    t
}

fn deg<T: RF>(v: &[T]) -> i64 {
    norm(v.to_vec()).len() as i64 - 1
}
fn classes<T: RF, U: RF>(a: &[T], b: &[U], st: &mut Stats) {
    let (da, db) = (deg(a), deg(b));
    if da < 0 || db < 0 {
        st.hit("class:zero-operand");
    } else if da == 0 || db == 0 {
        st.hit("class:constant-operand");
    }
    if (a.len() as i64) > da + 1 || (b.len() as i64) > db + 1 {
        st.hit("class:stored-leading-zeros");
    }
}
fn arm_multiply(da: i64, db: i64, st: &mut Stats) {
    let (t, _) = thresholds();
    let s = da + db;
    st.hit(if s < t { "arm:multiply=naive" } else { "arm:multiply=fast" });
    if (s - t).abs() <= 2 {
        st.hit(&format!("boundary:multiply degsum=T{:+}", s - t));
    }
}
fn arm_square(d: i64, st: &mut Stats) {
    let (_, c) = thresholds();
    if d >= 0 {
        let l = 2 * d + 1;
        st.hit(if l as usize > c { "arm:square=fast" } else { "arm:square=slow" });
        if (l - c as i64).abs() <= 3 {
            st.hit(&format!("boundary:square len=C{:+}", l - c as i64));
        }
    }
}

fn reply<T: RF>(got: Vec<T>, want: Vec<T>, what: &str) -> Option<Out> {
    let ok = got == want;
    Some(Out::ok(format!("ok:{}", T::fmtl(&got))).with_oracle(ok, format!("{what}: result differs from the schoolbook product")))
}

fn pow_ref<T: RF>(a: &[T], e: u64) -> Vec<T> {
    let mut acc = vec![T::one()];
    if e <= 512 {
        for _ in 0..e {
            acc = school(&acc, a);
        }
        return acc;
    }
    // large exponents (only generated for zero / constant bases): right-to-left binary powering -- not the left-to-right
    // square-and-multiply of the code under test
    let (mut base, mut e) = (a.to_vec(), e);
    while e > 0 {
        if e & 1 == 1 {
            acc = school(&acc, &base);
        }
        e >>= 1;
        if e > 0 {
            base = school(&base, &base);
        }
    }
    acc
}

/// run one op line in a child process pinned to `t` cpus, so that `available_parallelism()` (and rayon's pool) is `t`
fn in_child(t: usize, line: &str) -> Option<String> {
    let exe = std::env::current_exe().ok()?;
    let mut ch = Command::new("taskset")
        .arg("-c")
        .arg(format!("0-{}", t - 1))
        .arg(exe)
        .arg("run")
        .env("TFH_CHILD", "1")
        .env("RAYON_NUM_THREADS", t.to_string())
        .stdin(Stdio::piped())
        .stdout(Stdio::piped())
        .stderr(Stdio::null())
        .spawn()
        .ok()?;
    ch.stdin.take()?.write_all(format!("{line}\n").as_bytes()).ok()?;
    let mut s = String::new();
    BufReader::new(ch.stdout.take()?).read_line(&mut s).ok()?;
    let _ = ch.wait();
    let s = s.trim_end_matches('\n').to_string();
    if s.is_empty() {
        None
    } else {
        Some(s)
    }
}

pub fn run_poly(op: &str, args: &[Arg], st: &mut Stats) -> Option<Out> {
    let f = args.first()?.sym()?.to_string();
    let a = &args[1..];
    st.hit(&format!("field:{f}"));
    match (op, f.as_str()) {
        // ---- binary products ----------------------------------------------------------------------------
        ("naive" | "mul" | "multiply" | "fast", "b") => {
            let (x, y) = (arg_b(&a[0])?, arg_b(&a[1])?);
            classes(&x, &y, st);
            if op == "multiply" {
                arm_multiply(deg(&x), deg(&y), st);
            }
            let (p, q) = (bp(&x), bp(&y));
            let r = match op {
                "naive" => p.naive_multiply(&q),
                "mul" => p * q,
                "multiply" => p.multiply(&q),
                _ => p.fast_multiply(&q),
            };
            reply(bvals(r.coefficients()), school(&x, &y), op)
        }
        ("naive" | "mul" | "multiply" | "fast", "x") => {
            let (x, y) = (arg_x(&a[0])?, arg_x(&a[1])?);
            classes(&x, &y, st);
            if op == "multiply" {
                arm_multiply(deg(&x), deg(&y), st);
            }
            let (p, q) = (xp(&x), xp(&y));
            let r = match op {
                "naive" => p.naive_multiply(&q),
                "mul" => p * q,
                "multiply" => p.multiply(&q),
                _ => p.fast_multiply(&q),
            };
            reply(xvals(r.coefficients()), school(&x, &y), op)
        }
        ("naive" | "mul" | "multiply" | "fast", "bx") => {
            let (x, y) = (arg_b(&a[0])?, arg_x(&a[1])?);
            classes(&x, &y, st);
            if op == "multiply" {
                arm_multiply(deg(&x), deg(&y), st);
            }
            let (p, q) = (bp(&x), xp(&y));
            let r: XP = match op {
                "naive" => p.naive_multiply(&q),
                "mul" => p * q,
                "multiply" => p.multiply(&q),
                _ => p.fast_multiply(&q),
            };
            let xl: Vec<X3> = x.iter().map(|&c| lift(c)).collect();
            reply(xvals(r.coefficients()), school(&xl, &y), op)
        }
        ("naive" | "mul" | "multiply" | "fast", "xb") => {
            let (x, y) = (arg_x(&a[0])?, arg_b(&a[1])?);
            classes(&x, &y, st);
            if op == "multiply" {
                arm_multiply(deg(&x), deg(&y), st);
            }
            let (p, q) = (xp(&x), bp(&y));
            let r: XP = match op {
                "naive" => p.naive_multiply(&q),
                "mul" => p * q,
                "multiply" => p.multiply(&q),
                _ => p.fast_multiply(&q),
            };
            let yl: Vec<X3> = y.iter().map(|&c| lift(c)).collect();
            reply(xvals(r.coefficients()), school(&x, &yl), op)
        }
        // ---- squares ------------------------------------------------------------------------------------
        ("ssq" | "sq" | "fsq", "b") => {
            let x = arg_b(&a[0])?;
            classes(&x, &x, st);
            if op == "sq" {
                arm_square(deg(&x), st);
            }
            let p = bp(&x);
            let r = match op {
                "ssq" => p.slow_square(),
                "sq" => p.square(),
                _ => p.fast_square(),
            };
            reply(bvals(r.coefficients()), school(&x, &x), op)
        }
        ("ssq" | "sq" | "fsq", "x") => {
            let x = arg_x(&a[0])?;
            classes(&x, &x, st);
            if op == "sq" {
                arm_square(deg(&x), st);
            }
            let p = xp(&x);
            let r = match op {
                "ssq" => p.slow_square(),
                "sq" => p.square(),
                _ => p.fast_square(),
            };
            reply(xvals(r.coefficients()), school(&x, &x), op)
        }
        // ---- powers -------------------------------------------------------------------------------------
        ("pow" | "fpow", "b") => {
            let x = arg_b(&a[0])?;
            let e = a[1].u64()?;
            st.hit(&format!("exp:{}", if e <= 3 { e.to_string() } else { ">3".into() }));
            if deg(&x) < 0 {
                st.hit(if e == 0 { "class:0^0" } else { "class:0^e" });
            }
            let p = bp(&x);
            let r = if op == "pow" { p.pow(e as u32) } else { p.fast_pow(e as u32) };
            reply(bvals(r.coefficients()), pow_ref(&x, e), op)
        }
        ("pow" | "fpow", "x") => {
            let x = arg_x(&a[0])?;
            let e = a[1].u64()?;
            st.hit(&format!("exp:{}", if e <= 3 { e.to_string() } else { ">3".into() }));
            if deg(&x) < 0 {
                st.hit(if e == 0 { "class:0^0" } else { "class:0^e" });
            }
            let p = xp(&x);
            let r = if op == "pow" { p.pow(e as u32) } else { p.fast_pow(e as u32) };
            reply(xvals(r.coefficients()), pow_ref(&x, e), op)
        }
        // ---- batch products -----------------------------------------------------------------------------
        ("batch" | "parbatch", "b" | "x") => {
            let (t, fs) = if op == "parbatch" { (a[0].usize()?, &a[1]) } else { (0, &a[0]) };
            let n = fs.list()?.len();
            st.hit(&format!("batch:len={}", if n <= 9 { n.to_string() } else { ">9".into() }));
            if n >= 100 {
                // many small factors: the chunking of par_batch_multiply (len / threads, remainder chunks) matters here
                st.hit(&format!("batch:many-factors len={n}"));
                if op == "parbatch" && t >= 1 {
                    let chunk = usize::max(2, n / t);
                    st.hit(&format!("parbatch:many-factors first-round remainder={}", if n % chunk == 0 { "0" } else { "nonzero" }));
                }
            }
            if fs.list()?.iter().all(|p| p.list().is_some_and(|l| l.len() == 2)) && n >= 2 {
                st.hit("batch:every-factor-has-two-stored-coefficients");
            }
            if op == "parbatch" {
                let cur = std::thread::available_parallelism().map(|n| n.get()).unwrap_or(1);
                if t >= 1 && t != cur && std::env::var("TFH_CHILD").is_err() {
                    // re-execute this very op under `taskset` so that the code sees `t` cpus
                    let line = format!(
                        "poly parbatch {f} {t} {}",
                        match f.as_str() {
                            "b" => format!("[{}]", fs.list()?.iter().map(|p| fmt_list_u64(&arg_b(p).unwrap())).collect::<Vec<_>>().join(",")),
                            _ => format!("[{}]", fs.list()?.iter().map(|p| X3::fmtl(&arg_x(p).unwrap())).collect::<Vec<_>>().join(",")),
                        }
                    );
                    if let Some(r) = in_child(t, &line) {
                        st.hit(&format!("threads:{t} (child under taskset)"));
                        let (rep, orc) = match r.split_once("\tORACLE-FAIL:") {
                            Some((x, y)) => (x.to_string(), Some(y.to_string())),
                            None => (r, None),
                        };
                        return Some(Out { reply: rep, oracle_fail: orc });
                    }
                    st.hit("threads:fallback-in-process");
                } else {
                    st.hit(&format!("threads:{cur} (in process)"));
                }
            }
            if f == "b" {
                let vs: Vec<Vec<u64>> = fs.list()?.iter().map(arg_b).collect::<Option<_>>()?;
                let ps: Vec<BP> = vs.iter().map(|v| bp(v)).collect();
                let r = if op == "batch" { Polynomial::batch_multiply(&ps) } else { Polynomial::par_batch_multiply(&ps) };
                let mut want = vec![1u64];
                for v in &vs {
                    want = school(&want, v);
                }
                reply(bvals(r.coefficients()), want, op)
            } else {
                let vs: Vec<Vec<X3>> = fs.list()?.iter().map(arg_x).collect::<Option<_>>()?;
                let ps: Vec<XP> = vs.iter().map(|v| xp(v)).collect();
                let r = if op == "batch" { Polynomial::batch_multiply(&ps) } else { Polynomial::par_batch_multiply(&ps) };
                let mut want = vec![X3::one()];
                for v in &vs {
                    want = school(&want, v);
                }
                reply(xvals(r.coefficients()), want, op)
            }
        }
        // ---- scalar products ----------------------------------------------------------------------------
        ("smul" | "smulmut" | "smul_l" | "smul_r", "b") => {
            let x = arg_b(&a[0])?;
            let s = a[1].u64()? % P;
            let sb = BFieldElement::new(s);
            let p = bp(&x);
            let r: BP = match op {
                "smul" => p.scalar_mul(sb),
                "smulmut" => {
                    let mut q = p;
                    q.scalar_mul_mut(sb);
                    q
                }
                "smul_l" => sb * p,
                _ => p * sb,
            };
            reply(bvals(r.coefficients()), norm(x.iter().map(|&c| mulp(c, s)).collect()), op)
        }
        ("smul" | "smulmut" | "smul_l" | "smul_r", "x") => {
            let x = arg_x(&a[0])?;
            let s = arg_x1(&a[1])?;
            let sx = xe(s);
            let p = xp(&x);
            let r: XP = match op {
                "smul" => p.scalar_mul(sx),
                "smulmut" => {
                    let mut q = p;
                    q.scalar_mul_mut(sx);
                    q
                }
                "smul_l" => sx * p,
                _ => p * sx,
            };
            reply(xvals(r.coefficients()), norm(x.iter().map(|&c| c.mul(s)).collect()), op)
        }
        ("smul" | "smul_l" | "smul_r", "bx") => {
            let x = arg_b(&a[0])?;
            let s = arg_x1(&a[1])?;
            let sx = xe(s);
            let p = bp(&x);
            let r: XP = match op {
                "smul" => p.scalar_mul(sx),
                "smul_l" => sx * p,
                _ => p * sx,
            };
            reply(xvals(r.coefficients()), norm(x.iter().map(|&c| lift(c).mul(s)).collect()), op)
        }
        ("smul" | "smulmut" | "smul_l" | "smul_r", "xb") => {
            let x = arg_x(&a[0])?;
            let s = a[1].u64()? % P;
            let sb = BFieldElement::new(s);
            let p = xp(&x);
            let r: XP = match op {
                "smul" => p.scalar_mul(sb),
                "smulmut" => {
                    let mut q = p;
                    q.scalar_mul_mut(sb);
                    q
                }
                "smul_l" => sb * p,
                _ => p * sb,
            };
            reply(xvals(r.coefficients()), norm(x.iter().map(|&c| c.mul(lift(s))).collect()), op)
        }
        // ---- scale: P(X) -> P(alpha X) --------------------------------------------------------------------
        ("scale", "b") => {
            let x = arg_b(&a[0])?;
            let s = a[1].u64()? % P;
            let r: BP = bp(&x).scale(BFieldElement::new(s));
            let mut pw = 1u64;
            let mut want = vec![];
            for &c in &x {
                want.push(mulp(c, pw));
                pw = mulp(pw, s);
            }
            reply(bvals(r.coefficients()), norm(want), op)
        }
        ("scale", "x" | "bx" | "xb") => {
            let x: Vec<X3> = if f == "bx" { arg_b(&a[0])?.into_iter().map(lift).collect() } else { arg_x(&a[0])? };
            let s: X3 = if f == "xb" { lift(a[1].u64()? % P) } else { arg_x1(&a[1])? };
            let r: XP = match f.as_str() {
                "x" => xp(&x).scale(xe(s)),
                "bx" => bp(&arg_b(&a[0])?).scale(xe(s)),
                _ => xp(&x).scale(BFieldElement::new(s[0])),
            };
            let mut pw = X3::one();
            let mut want = vec![];
            for &c in &x {
                want.push(c.mul(pw));
                pw = pw.mul(s);
            }
            reply(xvals(r.coefficients()), norm(want), op)
        }
        // ---- shift ----------------------------------------------------------------------------------------
        ("shift", "b") => {
            let x = arg_b(&a[0])?;
            let n = a[1].usize()?;
            let r = bp(&x).shift_coefficients(n);
            let mut want = vec![0u64; n];
            want.extend(&x);
            reply(bvals(r.coefficients()), norm(want), op)
        }
        ("shift", "x") => {
            let x = arg_x(&a[0])?;
            let n = a[1].usize()?;
            let r = xp(&x).shift_coefficients(n);
            let mut want = vec![X3::zero(); n];
            want.extend(&x);
            reply(xvals(r.coefficients()), norm(want), op)
        }
        _ => None,
    }
}

// ---- generators ---------------------------------------------------------------------------------------
/// raw storage of a polynomial of exact degree `d` (`d = -1`: zero) with `k` stored leading zeros
pub fn gen_b(rng: &mut Rng, d: i64, k: usize) -> Vec<u64> {
    let mut v = vec![];
    if d >= 0 {
        let sparse = rng.coin(1, 5);
        for _ in 0..d {
            v.push(if sparse && rng.coin(3, 4) { 0 } else { rng.fval() });
        }
        let mut lc = rng.fval();
        while lc == 0 {
            lc = rng.range(1, P - 1);
        }
        v.push(lc);
    }
    v.extend(std::iter::repeat(0).take(k));
    v
}
pub fn gen_x(rng: &mut Rng, d: i64, k: usize) -> Vec<X3> {
    let mut v = vec![];
    if d >= 0 {
        let sparse = rng.coin(1, 5);
        for _ in 0..d {
            v.push(if sparse && rng.coin(3, 4) { [0, 0, 0] } else { xvals(&[rng.xfe()])[0] });
        }
        let mut lc = xvals(&[rng.xfe()])[0];
        while lc == [0, 0, 0] {
            lc = [0, rng.range(1, P - 1), 0];
        }
        v.push(lc);
    }
    v.extend(std::iter::repeat([0, 0, 0]).take(k));
    v
}
pub fn zeros_k(rng: &mut Rng) -> usize {
    *rng.pick(&[0usize, 0, 0, 0, 1, 2, 17])
}
fn pstr(rng: &mut Rng, field_is_x: bool, d: i64, k: usize) -> String {
    if field_is_x {
        X3::fmtl(&gen_x(rng, d, k))
    } else {
        fmt_list_u64(&gen_b(rng, d, k))
    }
}
fn left_x(f: &str) -> bool {
    f == "x" || f == "xb"
}
fn right_x(f: &str) -> bool {
    f == "x" || f == "bx"
}

pub fn gen(rng: &mut Rng, thorough: bool, out: &mut Vec<String>) {
    let (t, c) = thresholds();
    let fields4 = ["b", "x", "bx", "xb"];
    let binops = ["naive", "mul", "multiply", "fast"];
    // 1. degree pairs straddling the multiply threshold (degree sum t-2 .. t+2), all four field combinations
    for s in (t - 2).max(0)..=t + 2 {
        for f in fields4 {
            let splits: Vec<i64> = vec![0, 1, s / 2, s - 1, s, rng.range(0, s as u64) as i64];
            for da in splits {
                if da < 0 || da > s {
                    continue;
                }
                let (ka, kb) = (zeros_k(rng), zeros_k(rng));
                let a = pstr(rng, left_x(f), da, ka);
                let b = pstr(rng, right_x(f), s - da, kb);
                out.push(format!("poly multiply {f} {a} {b}"));
                if f == "b" || rng.coin(1, 3) {
                    out.push(format!("poly fast {f} {a} {b}"));
                    out.push(format!("poly naive {f} {a} {b}"));
                }
            }
        }
    }
    // 2. degenerate operands: zero (empty / all-zero storage), constants, zero x power-of-two degree (fast_multiply's
    //    early return is keyed on the degree *sum*)
    for f in fields4 {
        for op in binops {
            for (da, db) in [(-1i64, -1i64), (-1, 0), (0, -1), (-1, 1), (1, -1), (-1, 2), (2, -1), (-1, 4), (4, -1), (-1, 8),
                (-1, 7), (16, -1), (0, 0), (0, 5), (5, 0), (1, 1), (-1, 300), (300, -1), (0, 300), (300, 0)]
            {
                for k in [0usize, 1, 17] {
                    let a = pstr(rng, left_x(f), da, k);
                    let b = pstr(rng, right_x(f), db, if k == 1 { 2 } else { 0 });
                    out.push(format!("poly {op} {f} {a} {b}"));
                }
            }
        }
    }
    // 3. random pairs, small and medium; sizes up to 2^10 (quick) / 2^13 (thorough) for the NTT arm
    let n = if thorough { 14000 } else { 700 };
    let big = if thorough { 6000 } else { 900 };
    for i in 0..n {
        let f = *rng.pick(&fields4);
        let op = *rng.pick(&binops);
        let lim = match (op, i % 10) {
            ("naive" | "mul", 0) => 400,
            ("fast" | "multiply", 0) => big,
            (_, 1..=3) => 140,
            _ => 12,
        };
        let lim = if f != "b" && lim > 400 { lim / 2 } else { lim };
        let da = rng.range(0, lim) as i64 - 1;
        let db = rng.range(0, lim) as i64 - 1;
        let (ka, kb) = (zeros_k(rng), zeros_k(rng));
        let a = pstr(rng, left_x(f), da, ka);
        let b = pstr(rng, right_x(f), db, kb);
        out.push(format!("poly {op} {f} {a} {b}"));
    }
    // 4. squares around the cut-off (2·deg+1 vs c), zero/constant/stored zeros
    let dc = (c as i64) / 2;
    for f in ["b", "x"] {
        for op in ["ssq", "sq", "fsq"] {
            for d in [-1i64, 0, 1, 2, 3, dc - 2, dc - 1, dc, dc + 1, dc + 2, 2 * dc, 100] {
                for k in [0usize, 1, 2, 17] {
                    if d < -1 {
                        continue;
                    }
                    let a = pstr(rng, f == "x", d, k);
                    out.push(format!("poly {op} {f} {a}"));
                }
            }
        }
    }
    for _ in 0..(if thorough { 2000 } else { 200 }) {
        let f = *rng.pick(&["b", "x"]);
        let op = *rng.pick(&["ssq", "sq", "fsq"]);
        let hi = if rng.coin(1, 8) { 600 } else { 40 };
        let d = rng.range(0, hi) as i64 - 1;
        let k = zeros_k(rng);
        let a = pstr(rng, f == "x", d, k);
        out.push(format!("poly {op} {f} {a}"));
    }
    // 5. powers: exponents 0,1,2,.. and around powers of two; bases zero/constant/small; fast_pow crossing both cut-offs
    for f in ["b", "x"] {
        for op in ["pow", "fpow"] {
            for e in [0u64, 1, 2, 3, 4, 5, 7, 8, 9, 15, 16, 17, 31, 32, 33] {
                for d in [-1i64, 0, 1, 2, 5] {
                    if d * e as i64 > 400 {
                        continue;
                    }
                    let k = zeros_k(rng);
                    let a = pstr(rng, f == "x", d, k);
                    out.push(format!("poly {op} {f} {a} {e}"));
                }
            }
            // exponents that use the high bits of the `u32` (bit 31 is only read when `bit_length = 31`): feasible for
            // zero and constant bases only -- 32 squarings of a constant
            for e in [65537u64, (1 << 31) - 1, 1 << 31, (1 << 31) + 1, 0xAAAA_AAAB, 0xFFFF_0001, u32::MAX as u64] {
                for d in [-1i64, 0] {
                    let a = pstr(rng, f == "x", d, 0);
                    out.push(format!("poly {op} {f} {a} {e}"));
                }
            }
            // degree 9 ^ 8 crosses the squaring cut-off, degree 20 ^ 13 / 33 ^ 8 the multiply threshold
            for (d, e) in [(9i64, 8u64), (20, 13), (33, 8), (16, 16), (3, 100), (130, 2), (130, 3)] {
                if op == "pow" && d * e as i64 > 200 {
                    continue;
                }
                let k = zeros_k(rng);
                let a = pstr(rng, f == "x", d, k);
                out.push(format!("poly {op} {f} {a} {e}"));
            }
        }
    }
    // 6. batch products: tree shapes (list lengths 0..17), zero and constant factors, pair products crossing the threshold,
    //    thread counts 1..16 for the parallel variant
    let lens: Vec<usize> = vec![0, 1, 2, 3, 4, 5, 6, 7, 8, 9, 15, 16, 17, 31, 33];
    let threads = [1usize, 2, 3, 4, 5, 7, 8, 16];
    let reps = if thorough { 12 } else { 1 };
    for _ in 0..reps {
        for &l in &lens {
            for f in ["b", "x"] {
                let style = rng.below(4);
                let mut fs = vec![];
                for _ in 0..l {
                    let d = match style {
                        0 => 1,
                        1 => rng.range(0, 6) as i64 - 1,
                        2 => rng.range(0, 3) as i64,
                        _ => (t / 2 + rng.range(0, 4) as i64 - 2).max(0).min(if l > 8 { 20 } else { 400 }),
                    };
                    let k = zeros_k(rng);
                    fs.push(pstr(rng, f == "x", d, k));
                }
                let fs = format!("[{}]", fs.join(","));
                out.push(format!("poly batch {f} {fs}"));
                for &th in &threads {
                    if th == 1 || rng.coin(1, 3) || (l % 4 == 1 && f == "b") {
                        out.push(format!("poly parbatch {f} {th} {fs}"));
                    }
                }
            }
        }
    }
    // 6b. MANY small factors (degree 0..2, no zero factor so that every factor matters): list lengths around 128/256 and
    //     lengths that are not multiples of `max(2, len / threads)` for the thread counts used -- a parallel round
    //     that drops or duplicates a remainder chunk changes the degree of the product
    let many: Vec<usize> = vec![127, 128, 129, 130, 131, 200, 255, 256, 257, 500];
    for (i, &l) in many.iter().enumerate() {
        for f in ["b", "x"] {
            if f == "x" && !thorough && !(l == 131 || l == 257) {
                continue;
            }
            let style = (i + if f == "x" { 1 } else { 0 }) % 2;
            let mut fs = vec![];
            for _ in 0..l {
                let d = if style == 0 { 1 } else { rng.range(0, 3) as i64 };
                let mut v = if f == "x" { X3::fmtl(&gen_x(rng, d, 0)) } else { fmt_list_u64(&gen_b(rng, d, 0)) };
                if style == 0 {
                    // monic linear factor X - r
                    let r = rng.fval();
                    v = if f == "x" { format!("[({};{};0),(1;0;0)]", r, rng.below(3)) } else { format!("[{},1]", r) };
                }
                fs.push(v);
            }
            let fs = format!("[{}]", fs.join(","));
            out.push(format!("poly batch {f} {fs}"));
            // thread counts for which `l % max(2, l / threads) != 0` for most of the lengths (3 covers 128/200/256/500)
            for &th in &[2usize, 3, 16] {
                if f == "b" || th == 3 || thorough {
                    out.push(format!("poly parbatch {f} {th} {fs}"));
                }
            }
        }
    }
    // 6c. every factor has exactly two STORED coefficients and leading coefficient 1, but some of them are the
    //     constant 1 stored as [1,0] (e.g. the result of (X+1) - X), others constants [c,0] or the zero [0,0]:
    //     a "all factors are monic linear" shortcut keyed on the stored length must not fire
    for f in ["b", "x"] {
        let one0 = if f == "x" { "[(1;0;0),(0;0;0)]" } else { "[1,0]" };
        let zero0 = if f == "x" { "[(0;0;0),(0;0;0)]" } else { "[0,0]" };
        let lin = |rng: &mut Rng| -> String {
            let r = rng.fval();
            if f == "x" { format!("[({};1;0),(1;0;0)]", r) } else { format!("[{},1]", r) }
        };
        let cst = |rng: &mut Rng| -> String {
            let c = 2 + rng.below(P - 2);
            if f == "x" { format!("[({};0;0),(0;0;0)]", c) } else { format!("[{},0]", c) }
        };
        for &l in &[1usize, 2, 3, 4, 5, 8, 9, 16, 17, 130] {
            for variant in 0..4 {
                let mut fs: Vec<String> = (0..l).map(|_| lin(rng)).collect();
                let pos = rng.below(l as u64) as usize;
                match variant {
                    0 => fs[pos] = one0.to_string(),
                    1 => {
                        fs[pos] = one0.to_string();
                        fs[l - 1] = one0.to_string();
                        fs[0] = one0.to_string();
                    }
                    2 => fs[pos] = cst(rng),
                    _ => fs[pos] = if l > 16 { one0.to_string() } else { zero0.to_string() },
                }
                let fs = format!("[{}]", fs.join(","));
                out.push(format!("poly batch {f} {fs}"));
                let th = *rng.pick(&[1usize, 2, 3, 16]);
                out.push(format!("poly parbatch {f} {th} {fs}"));
            }
        }
        // padded linears [a,1,0] and padded constants [c,0,0] among two-coefficient factors
        for _ in 0..(if thorough { 20 } else { 4 }) {
            let l = rng.range(2, 9) as usize;
            let fs: Vec<String> = (0..l)
                .map(|_| match rng.below(5) {
                    0 => one0.to_string(),
                    1 => { let v = lin(rng); format!("{},{}]", &v[..v.len() - 1], if f == "x" { "(0;0;0)" } else { "0" }) }
                    2 => { let v = cst(rng); format!("{},{}]", &v[..v.len() - 1], if f == "x" { "(0;0;0)" } else { "0" }) }
                    _ => lin(rng),
                })
                .collect();
            let fs = format!("[{}]", fs.join(","));
            out.push(format!("poly batch {f} {fs}"));
            out.push(format!("poly parbatch {f} {} {fs}", *rng.pick(&[1usize, 3, 16])));
        }
    }
    // 7. scalar products, scale, shift
    for _ in 0..(if thorough { 3000 } else { 400 }) {
        let f = *rng.pick(&fields4);
        let d = rng.range(0, 30) as i64 - 1;
        let k = zeros_k(rng);
        let a = pstr(rng, left_x(f), d, k);
        let s = if right_x(f) {
            let v = match rng.below(5) {
                0 => [0, 0, 0],
                1 => [1, 0, 0],
                2 => [P - 1, 0, 0],
                _ => xvals(&[rng.xfe()])[0],
            };
            format!("({};{};{})", v[0], v[1], v[2])
        } else {
            rng.fval().to_string()
        };
        let ops: &[&str] = if f == "bx" { &["smul", "smul_l", "smul_r", "scale"] } else { &["smul", "smulmut", "smul_l", "smul_r", "scale"] };
        let op = *rng.pick(ops);
        out.push(format!("poly {op} {f} {a} {s}"));
        if rng.coin(1, 4) {
            let f = *rng.pick(&["b", "x"]);
            let a = pstr(rng, f == "x", d, k);
            let n = *rng.pick(&[0u64, 1, 2, 17, 100]);
            out.push(format!("poly shift {f} {a} {n}"));
        }
    }
}
