// PROP: C18  FAMILIES:
//! C18 growth -- BULK and HISTORY ops of family `lat` (`c18.rs` falls through to `run_lat_more`); implementation-side
//! oracles only, the model answers `skip`.
//!
//!   lat msgflip <seed>            HISTORY: one key pair, one honest encapsulation; then for every message lane (ring
//!        coefficient k, 16-bit chunk j) the honest ciphertext is decapsulated (must return the encapsulated key) and
//!        right after it the ciphertext with bga_m + NTT(+-2^(15+16j) X^k) -- exactly one message bit flipped, payload
//!        byte k/2 -- which must be REJECTED, whatever was decapsulated before in this process   -> ok:<#decapsulations>
//!   lat bulkkem <seed> <count>    count key generations / encapsulations / decapsulations in one process: honest round
//!        trips return the key, the ciphertext of round i is rejected under the key of round i-1, a repeated call gives
//!        the same answer                                                                        -> ok:<count>
//!   lat bulkmmul <seed> <reps>    the three module multiplication strategies on shapes larger than the ones of the
//!        main stream (4x4x4, 8x2x8, 3x5x2, 1x16x1), against each other and against the schoolbook product
use crate::util::*;
use serde_json::json;
use serde_json::Value;
use twenty_first::math::lattice::kem;
use twenty_first::math::lattice::*;
use twenty_first::prelude::*;

type R64 = [u64; 64];
fn mulp(a: u64, b: u64) -> u64 { ((a as u128 * b as u128) % P as u128) as u64 }
fn addp(a: u64, b: u64) -> u64 { ((a as u128 + b as u128) % P as u128) as u64 }
fn subp(a: u64, b: u64) -> u64 { ((a as u128 + P as u128 - b as u128) % P as u128) as u64 }

fn module_from<const N: usize>(rs: &[R64]) -> ModuleElement<N> {
    let els: Vec<Value> = rs.iter().map(|r| json!({ "coefficients": r.to_vec() })).collect();
    serde_json::from_value(json!({ "elements": els })).expect("module element from json")
}
fn module_to<const N: usize>(m: &ModuleElement<N>) -> Vec<R64> {
    let v = serde_json::to_value(m).unwrap();
    v["elements"].as_array().unwrap().iter().map(|e| {
        let c: Vec<u64> = e["coefficients"].as_array().unwrap().iter().map(|x| x.as_u64().unwrap()).collect();
        let r: R64 = c.try_into().unwrap();
        r
    }).collect()
}
fn schoolbook(a: &R64, b: &R64) -> R64 {
    let mut c = [0u64; 64];
    for i in 0..64 {
        if a[i] == 0 { continue; }
        for j in 0..64 {
            let t = mulp(a[i], b[j]);
            if i + j < 64 { c[i + j] = addp(c[i + j], t); } else { c[i + j - 64] = subp(c[i + j - 64], t); }
        }
    }
    c
}
fn schoolbook_module(h: usize, inner: usize, w: usize, l: &[R64], r: &[R64]) -> Vec<R64> {
    let mut out = vec![[0u64; 64]; h * w];
    for hh in 0..h { for ww in 0..w { for i in 0..inner {
        let p = schoolbook(&l[hh * inner + i], &r[i * w + ww]);
        for t in 0..64 { out[hh * w + ww][t] = addp(out[hh * w + ww][t], p[t]); }
    } } }
    out
}
macro_rules! big_shape {
    ($h:literal, $i:literal, $w:literal, $l:expr, $r:expr) => {{
        const LN: usize = $h * $i;
        const RN: usize = $i * $w;
        const ON: usize = $h * $w;
        let l: ModuleElement<LN> = module_from::<LN>($l);
        let r: ModuleElement<RN> = module_from::<RN>($r);
        let m: ModuleElement<ON> = ModuleElement::<LN>::multiply::<$h, LN, $w, RN, $i, ON>(l, r);
        let f: ModuleElement<ON> = ModuleElement::<LN>::fast_multiply::<$h, LN, $w, RN, $i, ON>(l, r);
        let via: ModuleElement<ON> = ModuleElement::<LN>::multiply_hadamard::<$h, LN, $w, RN, $i, ON>(l.ntt(), r.ntt()).intt();
        (module_to(&m), module_to(&f), module_to(&via))
    }};
}
fn ring_of(r: &mut Rng) -> R64 {
    let mut x = [0u64; 64];
    match r.below(6) {
        0 => { x[r.below(64) as usize] = r.fval(); }
        1 => { for v in x.iter_mut() { *v = P - 1; } }
        _ => { for v in x.iter_mut() { *v = if r.coin(1, 8) { r.fval() } else { r.below(P) }; } }
    }
    x
}
fn b32(r: &mut Rng) -> [u8; 32] {
    let mut b = [0u8; 32];
    for x in b.iter_mut() { *x = r.next() as u8; }
    b
}
fn ct_to_vals(c: kem::Ciphertext) -> Vec<u64> {
    let a: [BFieldElement; kem::CIPHERTEXT_SIZE_IN_BFES] = c.into();
    a.iter().map(|x| x.value()).collect()
}
fn ct_from_vals(v: &[u64]) -> kem::Ciphertext {
    let a: [BFieldElement; kem::CIPHERTEXT_SIZE_IN_BFES] = v.iter().map(|&x| BFieldElement::new(x)).collect::<Vec<_>>().try_into().unwrap();
    kem::Ciphertext::from(a)
}

pub fn run_lat_more(op: &str, a: &[Arg], st: &mut Stats) -> Option<Out> {
    Some(match (op, a) {
        ("msgflip", [seed]) => {
            let mut r = Rng::new(seed.u64()?);
            let (sk, pk) = kem::keygen(b32(&mut r));
            let (key, c) = kem::enc(pk, b32(&mut r));
            let honest = ct_to_vals(c);
            let mut o = Out::ok("ok");
            let mut n = 0u32;
            // lanes of payload bytes >= 8 first (k >= 16), then the rest
            for k in (16..64usize).chain(0..16) {
                for j in 0..4u32 {
                    for neg in [false, true] {
                        let d0 = kem::dec(sk, ct_from_vals(&honest));
                        o = o.with_oracle(d0 == Some(key), format!("decapsulation of the honest ciphertext does not return the encapsulated key (after {} earlier decapsulations in this process)", n));
                        let delta = 1u64 << (15 + 16 * j);
                        let mut e = [BFieldElement::new(0); 64];
                        e[k] = BFieldElement::new(if neg { P - delta } else { delta });
                        coset_ntt_noswap_64(&mut e);
                        let mut vals = honest.clone();
                        for i in 0..64 { vals[256 + i] = addp(vals[256 + i], e[i].value()); }
                        let d1 = kem::dec(sk, ct_from_vals(&vals));
                        st.hit(if k >= 16 { "msgflip:payload-byte>=8" } else { "msgflip:payload-byte<8" });
                        o = o.with_oracle(d1.is_none(), format!("a ciphertext with ONE message bit flipped (bga_m {} NTT(2^{} X^{}), payload byte {}) is accepted right after the honest ciphertext was decapsulated; it yields {} key", if neg { "-" } else { "+" }, 15 + 16 * j, k, k / 2, if d1 == Some(key) { "the same" } else { "a different" }));
                        n += 2;
                    }
                }
            }
            // the other way round: tampered first (fresh key pair), then honest
            let (sk2, pk2) = kem::keygen(b32(&mut r));
            let (key2, c2) = kem::enc(pk2, b32(&mut r));
            let mut vals = ct_to_vals(c2);
            vals[300] = addp(vals[300], 1);
            o = o.with_oracle(kem::dec(sk2, ct_from_vals(&vals)).is_none(), "a ciphertext differing in one coefficient was accepted");
            o = o.with_oracle(kem::dec(sk2, c2) == Some(key2), "honest ciphertext rejected right after a tampered one was rejected");
            o = o.with_oracle(kem::dec(sk, c2).is_none() && kem::dec(sk2, ct_from_vals(&honest)).is_none(), "decapsulation under the other key of this process succeeded");
            Out { reply: format!("ok:{}", n + 4), oracle_fail: o.oracle_fail }
        }
        ("bulkkem", [seed, count]) => {
            let count = count.usize()?;
            if count > 100_000 { return None; }
            let mut r = Rng::new(seed.u64()?);
            let mut o = Out::ok("ok");
            let mut prev: Option<kem::SecretKey> = None;
            let (sk_fixed, pk_fixed) = kem::keygen(b32(&mut r));
            for i in 0..count {
                // even rounds: a fresh key pair, odd rounds: the fixed one (same key used repeatedly)
                let (sk, pk) = if i % 2 == 0 { kem::keygen(b32(&mut r)) } else { (sk_fixed, pk_fixed) };
                let rnd = b32(&mut r);
                let (k, c) = kem::enc(pk, rnd);
                let d = kem::dec(sk, c);
                if d != Some(k) {
                    o = o.with_oracle(false, format!("round trip {} of {} in one process: decapsulation does not return the encapsulated key", i, count));
                }
                if i % 64 == 0 {
                    let (k2, c2) = kem::enc(pk, rnd);
                    o = o.with_oracle(k2 == k && c2 == c && kem::dec(sk, c2) == d, format!("round trip {}: a repeated call gives another answer", i));
                }
                if let Some(p) = prev {
                    if i % 2 == 0 && i % 16 == 0 {
                        o = o.with_oracle(kem::dec(p, c).is_none(), format!("round trip {}: ciphertext accepted under the key of the previous round", i));
                    }
                }
                prev = Some(sk);
            }
            // seeds / randomness that share a prefix (first 8, 16, 31 bytes) are different inputs
            for share in [8usize, 16, 31] {
                let s1 = b32(&mut r);
                let mut s2 = b32(&mut r);
                s2[..share].copy_from_slice(&s1[..share]);
                let ((sk1, pk1), (sk2, pk2)) = (kem::keygen(s1), kem::keygen(s2));
                let (k1, c1) = kem::enc(pk1, s1);
                let (k2, c2) = kem::enc(pk2, s1);
                let (k3, c3) = kem::enc(pk1, s2);
                st.hit("bulkkem:same-prefix-seeds");
                o = o.with_oracle(kem::dec(sk1, c1) == Some(k1) && kem::dec(sk2, c2) == Some(k2) && kem::dec(sk1, c3) == Some(k3), format!("round trip fails for seeds that share their first {share} bytes with an earlier seed of this process"))
                    .with_oracle(kem::dec(sk2, c1).is_none() && kem::dec(sk1, c2).is_none(), format!("ciphertext accepted under the key generated from a seed sharing the first {share} bytes"))
                    .with_oracle(c1 != c3 && k1 != k3 && c1 != c2, format!("encapsulations with randomness / keys sharing the first {share} bytes coincide"));
            }
            st.hit(&format!("bulkkem:count>=2^{}", count.max(1).ilog2()));
            Out { reply: format!("ok:{}", count), oracle_fail: o.oracle_fail }
        }
        ("bulkmmul", [seed, reps]) => {
            let reps = reps.usize()?;
            if reps > 10_000 { return None; }
            let mut r = Rng::new(seed.u64()?);
            let mut o = Out::ok("ok");
            for rep in 0..reps {
                let (h, i, w) = [(4usize, 4usize, 4usize), (8, 2, 8), (3, 5, 2), (1, 16, 1)][rep % 4];
                let l: Vec<R64> = (0..h * i).map(|_| ring_of(&mut r)).collect();
                let rr: Vec<R64> = (0..i * w).map(|_| ring_of(&mut r)).collect();
                let (m, f, via) = match rep % 4 {
                    0 => big_shape!(4, 4, 4, &l, &rr),
                    1 => big_shape!(8, 2, 8, &l, &rr),
                    2 => big_shape!(3, 5, 2, &l, &rr),
                    _ => big_shape!(1, 16, 1, &l, &rr),
                };
                st.hit(&format!("bulkmmul:shape:{h}x{i}x{w}"));
                let school = schoolbook_module(h, i, w, &l, &rr);
                o = o.with_oracle(m == f, format!("{h}x{i}x{w}: multiply != fast_multiply"))
                    .with_oracle(f == via, format!("{h}x{i}x{w}: fast_multiply != intt(multiply_hadamard(ntt, ntt))"))
                    .with_oracle(m == school, format!("{h}x{i}x{w}: multiply differs from the schoolbook matrix product over F_p[X]/(X^64+1)"));
            }
            Out { reply: format!("ok:{}", reps), oracle_fail: o.oracle_fail }
        }
        _ => return None,
    })
}

pub fn gen(rng: &mut Rng, thorough: bool, out: &mut Vec<String>) {
    for _ in 0..(if thorough { 4 } else { 1 }) {
        out.push(format!("lat msgflip {}", rng.next()));
    }
    out.push(format!("lat bulkkem {} {}", rng.next(), if thorough { 20000 } else { 2000 }));
    out.push(format!("lat bulkmmul {} {}", rng.next(), if thorough { 400 } else { 40 }));
}
