// PROP: C01  FAMILIES:
//! C01 growth -- the rest of the public surface of b_field_element.rs / x_field_element.rs / traits.rs.
//! Same families `bfe` / `xfe` (raw Montgomery words in/out); `c01.rs` falls through to `run_bfe_more` / `run_xfe_more`.
//! Every op calls the REAL function and evaluates an oracle computed with u128 arithmetic mod P (independent of the model).
use crate::util::*;
use num_traits::{ConstOne, ConstZero, One, Zero};
use twenty_first::math::traits::*;
use twenty_first::prelude::*;

fn mulp(a: u64, b: u64) -> u64 {
    ((a as u128 * b as u128) % P as u128) as u64
}
fn addp(a: u64, b: u64) -> u64 {
    ((a as u128 + b as u128) % P as u128) as u64
}
fn subp(a: u64, b: u64) -> u64 {
    ((a as u128 + P as u128 - b as u128) % P as u128) as u64
}
fn powp(a: u64, mut e: u128) -> u64 {
    let mut base = a % P;
    let mut acc = 1u64;
    while e > 0 {
        if e & 1 == 1 {
            acc = mulp(acc, base);
        }
        base = mulp(base, base);
        e >>= 1;
    }
    acc
}
fn raw(v: u64) -> u64 {
    BFieldElement::new(v).raw_u64()
}
/// reference product in F_p[X]/(X^3 - X + 1) on canonical values
fn xmul_ref(a: [u64; 3], b: [u64; 3]) -> [u64; 3] {
    let mut t = [0u64; 5];
    for i in 0..3 {
        for j in 0..3 {
            t[i + j] = addp(t[i + j], mulp(a[i], b[j]));
        }
    }
    let (t4, t3) = (t[4], t[3]);
    [subp(t[0], t3), addp(subp(t[1], t4), t3), addp(t[2], t4)]
}
fn xpow_ref(a: [u64; 3], mut e: u128) -> [u64; 3] {
    let mut acc = [1u64, 0, 0];
    let mut base = a;
    while e > 0 {
        if e & 1 == 1 {
            acc = xmul_ref(acc, base);
        }
        base = xmul_ref(base, base);
        e >>= 1;
    }
    acc
}
fn xv(x: &XFieldElement) -> [u64; 3] {
    x.coefficients.map(|c| c.value())
}
fn xcanon(x: &XFieldElement) -> bool {
    x.coefficients.iter().all(|c| c.raw_u64() < P)
}
const PM1_PRIMES: [u64; 6] = [2, 3, 5, 17, 257, 65537];
/// multiplicative order of a non-zero canonical value (P - 1 = 2^32 * 3 * 5 * 17 * 257 * 65537)
fn order(v: u64) -> u64 {
    let mut ord = P - 1;
    for q in PM1_PRIMES {
        while ord % q == 0 && powp(v, (ord / q) as u128) == 1 {
            ord /= q;
        }
    }
    ord
}
/// an element of the given order (order must divide P - 1): 7 generates the multiplicative group
fn elem_of_order(d: u64) -> u64 {
    powp(7, ((P - 1) / d) as u128)
}
fn fmt_max(m: Option<usize>) -> String {
    match m {
        None => "none".into(),
        Some(m) => m.to_string(),
    }
}
fn parse_max(a: &Arg) -> Option<Option<usize>> {
    match a {
        Arg::Sym(s) if s == "none" => Some(None),
        _ => Some(Some(a.usize()?)),
    }
}
const CYC_LIMIT: u64 = 1 << 13;

pub fn gen(rng: &mut Rng, thorough: bool, out: &mut Vec<String>) {
    let grid: Vec<u64> = vec![0, 1, 2, 0xffff, 0x1_0000, 0xffff_ffff, 0x1_0000_0000, 0xffff_ffff_0000, 1 << 48, (1 << 63) - 1, 1 << 63, P - 0x1_0000_0000, P - 2, P - 1];
    // raw words: every canonical boundary, and the non-canonical range [P, 2^64) for the raw constructors
    let words: Vec<u64> = vec![0, 1, 0xffff, 0x1_0000, 0xffff_ffff, 1 << 32, 1 << 48, P - 1, P, P + 1, P + 0xffff, P + 0xffff_fffe, u64::MAX - 1, u64::MAX, 0xffff_0000_ffff_0000, 0x0123_4567_89ab_cdef];
    for &a in &grid {
        for op in ["incr", "decr", "square", "negt", "raw_u16s", "raw_bytes", "raw_u128", "raw_u64", "is_zero", "is_one"] {
            out.push(format!("bfe {} {}", op, a));
        }
        for ty in ["u64", "u128", "i128"] {
            out.push(format!("bfe to_uint {} {}", ty, a));
        }
    }
    for &w in &words {
        out.push(format!("bfe from_raw_u64 {}", w));
        out.push(format!("bfe is_canonical {}", w));
        let cs: Vec<u64> = (0..4).map(|i| (w >> (16 * i)) & 0xffff).collect();
        out.push(format!("bfe from_raw_u16s {}", fmt_list_u64(&cs)));
        out.push(format!("bfe from_raw_bytes {}", fmt_list_u64(&w.to_le_bytes().map(|b| b as u64))));
    }
    for c in ["ZERO", "ONE", "zero", "one", "generator", "MINUS_TWO_INVERSE", "P", "MAX", "BYTES", "default"] {
        out.push(format!("bfe const {}", c));
    }
    for (ty, bits) in [("u8", 8u32), ("u16", 16), ("u32", 32), ("u64", 64), ("usize", 64)] {
        let m = if bits == 64 { u64::MAX } else { (1u64 << bits) - 1 };
        for v in [0u64, 1, m / 2, m - 1, m, P - 1, P, P + 1] {
            if v <= m {
                out.push(format!("bfe from_uint {} {}", ty, v));
            }
        }
    }
    // every key of the table, the neighbours of the keys and a few non-keys
    for k in 0..=33u32 {
        let n = 1u64 << k;
        for n in [n, n + 1, n.wrapping_sub(1)] {
            out.push(format!("bfe proot {}", n));
            if k % 8 == 0 {
                out.push(format!("xfe proot {}", n));
            }
        }
    }
    out.push("bfe proot 0".into());
    out.push("xfe proot 0".into());
    out.push(format!("bfe proot {}", u64::MAX));
    // cyclic groups: every small order dividing P - 1, with and without `max`; `max` below, at and above the order
    for d in [1u64, 2, 3, 4, 5, 6, 8, 15, 16, 17, 30, 51, 64, 255, 257, 1024] {
        let g = raw(elem_of_order(d));
        out.push(format!("bfe cyc {} none", g));
        for m in [0u64, 1, 2, 3, d.saturating_sub(1), d, d + 1, d + 7] {
            out.push(format!("bfe cyc {} {}", g, m));
        }
        if d <= 64 {
            out.push(format!("xfe cyc ({};0;0) none", g));
            out.push(format!("xfe cyc ({};0;0) {}", g, d / 2 + 1));
        }
    }
    // zero never reaches one: the loop only stops through `max`
    for m in [0u64, 1, 2, 3, 17, 300] {
        out.push(format!("bfe cyc 0 {}", m));
        out.push(format!("xfe cyc (0;0;0) {}", m));
    }
    // BULK operations at sizes no dispatch threshold of the current code cares about: a future "parallelise above 2^k
    // elements" must not change a result (the whole stream is also run under RAYON_NUM_THREADS=3).  Operands are derived
    // from the seed inside the op, the implementation is checked by its own oracle, the model has no opinion (skip).
    {
        let sizes: &[u64] = if thorough {
            &[4095, 4096, 4097, 16383, 16384, 16385, 32769, 65536, 65539, 131071, 262147, 1048579]
        } else {
            &[4097, 16383, 16384, 16385, 65539, 262147]
        };
        for &n in sizes {
            let s = rng.next();
            out.push(format!("bfe bulk batchinv {} {}", s, n));
            out.push(format!("bfe bulk sum {} {}", s, n));
            out.push(format!("xfe bulk batchinv {} {}", s, n));
            out.push(format!("xfe bulk sum {} {}", s, n));
        }
    }
    for n in [1u64, 2, 64, 4096] {
        out.push(format!("bfe cycrun 0 {}", n));
        out.push(format!("xfe cycrun (0;0;0) {}", n));
        out.push(format!("bfe cycrun {} {}", raw(7), n));
        out.push(format!("bfe cycrun {} {}", raw(elem_of_order(64)), n));
        out.push(format!("xfe cycrun (0;{};0) {}", raw(1), n));
    }
    // an element of order 9 of the extension that is not in the base field: x^((P^3-1)/9), (P^3-1)/9 = (P-1)/3 * (P^2+P+1)/3
    {
        let e1 = ((P - 1) / 3) as u128;
        let e2 = ((P as u128) * (P as u128) + P as u128 + 1) / 3;
        for seed in [[2u64, 3, 5], [0, 1, 0], [1, 1, 1], [7, 0, 1]] {
            let y = xpow_ref(xpow_ref(seed, e1), e2);
            let f = format!("({};{};{})", raw(y[0]), raw(y[1]), raw(y[2]));
            out.push(format!("xfe cyc {} none", f));
            out.push(format!("xfe cyc {} 5", f));
            out.push(format!("xfe cycrun {} 8", f));
            out.push(format!("xfe cycrun {} 9", f));
        }
    }
    for i in 0..5u64 {
        out.push(format!("xfe incr ({};{};{}) {}", raw(P - 1), raw(0), raw(5), i));
        out.push(format!("xfe decr ({};{};{}) {}", raw(0), raw(1), raw(P - 1), i));
    }
    for l in [0usize, 1, 2, 3, 4, 7] {
        let cs: Vec<u64> = (0..l).map(|_| raw(rng.fval())).collect();
        out.push(format!("xfe tryfrom {}", fmt_list_u64(&cs)));
    }
    out.push("xfe sum []".into());
    out.push("xfe batchinv []".into());
    out.push("xfe batchinv [(0;0;0)]".into());

    let n = if thorough { 30_000 } else { 900 };
    for _ in 0..n {
        let a = raw(rng.fval());
        let b = raw(rng.fval());
        let x = rng.xfe();
        let y = rng.xfe();
        let fx = fmt_xfe_raw(&x);
        let fy = fmt_xfe_raw(&y);
        match rng.below(40) {
            0 => out.push(format!("bfe incr {}", a)),
            1 => out.push(format!("bfe decr {}", a)),
            2 => out.push(format!("bfe addassign {} {}", a, b)),
            3 => out.push(format!("bfe subassign {} {}", a, b)),
            4 => out.push(format!("bfe mulassign {} {}", a, b)),
            5 => out.push(format!("bfe square {}", a)),
            6 => out.push(format!("bfe raw_u16s {}", a)),
            7 => out.push(format!("bfe raw_bytes {}", a)),
            8 => {
                // chunks: boundary chunk values; about half of the draws are non-canonical words
                let cs: Vec<u64> = (0..4)
                    .map(|i| match rng.below(4) {
                        0 => 0xffff,
                        1 => *rng.pick(&[0u64, 1, 0xfffe]),
                        2 if i >= 2 => 0xffff,
                        _ => rng.below(1 << 16),
                    })
                    .collect();
                out.push(format!("bfe from_raw_u16s {}", fmt_list_u64(&cs)));
            }
            9 => {
                let w = rng.word();
                let w = if rng.coin(1, 3) { w | 0xffff_ffff_0000_0000 } else { w };
                out.push(format!("bfe from_raw_bytes {}", fmt_list_u64(&w.to_le_bytes().map(|b| b as u64))));
            }
            10 => out.push(format!("bfe from_raw_u64 {}", rng.word())),
            11 => out.push(format!("bfe is_canonical {}", rng.word())),
            12 => out.push(format!("bfe is_zero {}", if rng.coin(1, 3) { raw(0) } else { a })),
            13 => out.push(format!("bfe is_one {}", if rng.coin(1, 3) { raw(1) } else { a })),
            14 => {
                let e = match rng.below(3) {
                    0 => *rng.pick(&[0u64, 1, 2, 3, u32::MAX as u64, (u32::MAX - 1) as u64, 1 << 31, 1 << 16]),
                    1 => rng.below(40),
                    _ => rng.below(1 << 32),
                };
                out.push(format!("bfe pow32 {} {}", a, e));
                out.push(format!("xfe pow32 {} {}", fx, e));
            }
            15 => {
                let e = match rng.below(3) {
                    0 => *rng.pick(&[0u64, 1, P - 2, P - 1, P, u64::MAX, 1 << 63, 1 << 32]),
                    _ => rng.next(),
                };
                out.push(format!("bfe pow64 {} {}", a, e));
            }
            16 => {
                let (ty, bits) = *rng.pick(&[("u8", 8u32), ("u16", 16), ("u32", 32), ("u64", 64), ("usize", 64)]);
                let v = if bits == 64 { rng.word() } else { rng.word() & ((1u64 << bits) - 1) };
                out.push(format!("bfe from_uint {} {}", ty, v));
            }
            17 => out.push(format!("bfe to_uint {} {}", rng.pick(&["u64", "u128", "i128"]), a)),
            18 => {
                // base-field cyclic groups: an element of order d | P-1 times nothing else, or any element with a small `max`
                if rng.coin(1, 2) {
                    let d = *rng.pick(&[1u64, 2, 3, 4, 5, 6, 10, 12, 15, 16, 17, 32, 34, 48, 85, 128, 257, 512]);
                    let m = match rng.below(3) {
                        0 => "none".to_string(),
                        1 => rng.around(d, 2).to_string(),
                        _ => rng.below(2 * d + 2).to_string(),
                    };
                    out.push(format!("bfe cyc {} {}", raw(elem_of_order(d)), m));
                } else {
                    out.push(format!("bfe cyc {} {}", a, rng.below(40)));
                }
            }
            19 => out.push(format!("xfe cyc {} {}", fx, rng.below(24))),
            20 => out.push(format!("bfe cycrun {} {}", a, 1 + rng.below(200))),
            21 => out.push(format!("xfe newconst {}", a)),
            22 => out.push(format!("xfe is_zero {}", fx)),
            23 => out.push(format!("xfe is_one {}", if rng.coin(1, 3) { format!("({};{};{})", raw(1), raw(0), raw(0)) } else { fx })),
            24 => out.push(format!("xfe incr {} {}", fx, rng.below(4))),
            25 => out.push(format!("xfe decr {} {}", fx, rng.below(4))),
            26 => out.push(format!("xfe badd {} {}", a, fx)),
            27 => out.push(format!("xfe bmul {} {}", a, fx)),
            28 => out.push(format!("xfe subneg {} {}", fx, fy)),
            29 => out.push(format!("xfe subbneg {} {}", fx, a)),
            30 => out.push(format!("xfe bsubneg {} {}", a, fx)),
            31 => out.push(format!("xfe addassign {} {}", fx, fy)),
            32 => out.push(format!("xfe subassign {} {}", fx, fy)),
            33 => out.push(format!("xfe mulassign {} {}", fx, fy)),
            34 => out.push(format!("xfe addassignb {} {}", fx, a)),
            35 => out.push(format!("xfe subassignb {} {}", fx, a)),
            36 => out.push(format!("xfe mulassignb {} {}", fx, a)),
            37 => {
                let len = rng.below(6);
                let xs: Vec<String> = (0..len).map(|_| fmt_xfe_raw(&rng.xfe())).collect();
                out.push(format!("xfe sum [{}]", xs.join(",")));
            }
            38 => {
                let len = rng.below(6);
                let with_zero = rng.coin(1, 6);
                let mut xs: Vec<XFieldElement> = (0..len)
                    .map(|_| loop {
                        let x = rng.xfe();
                        if !x.is_zero() {
                            break x;
                        }
                    })
                    .collect();
                if with_zero && len > 0 {
                    let i = rng.below(len) as usize;
                    xs[i] = XFieldElement::ZERO;
                }
                let fs: Vec<String> = xs.iter().map(fmt_xfe_raw).collect();
                out.push(format!("xfe batchinv [{}]", fs.join(",")));
            }
            _ => {
                let l = *rng.pick(&[0u64, 1, 2, 3, 3, 3, 4, 5]);
                let cs: Vec<u64> = (0..l).map(|_| raw(rng.fval())).collect();
                out.push(format!("xfe tryfrom {}", fmt_list_u64(&cs)));
            }
        }
    }
}

/// oracle for a result of `get_cyclic_group_elements`, computed on canonical values with `pw(i)` = g^i
fn cyc_oracle(len: usize, elem_ok: impl Fn(usize) -> bool, next_is_one: bool, earlier_one: bool, max: Option<usize>) -> Result<(), String> {
    // returned [1, g, ..., g^n] with n = len - 1 >= 1; the loop stopped at iteration n and not before
    if len < 2 {
        return Err("fewer than two elements".into());
    }
    if !(0..len).all(elem_ok) {
        return Err("element i is not g^i".into());
    }
    let n = len - 1;
    let stop_here = next_is_one || max.is_some_and(|m| n + 1 >= m);
    if !stop_here {
        return Err("stopped although neither g^(n+1) = 1 nor the bound was reached".into());
    }
    if earlier_one {
        return Err("did not stop at the first power equal to one".into());
    }
    if let Some(m) = max {
        if n >= 2 && n + 1 > m.max(2) {
            return Err("longer than max".into());
        }
    }
    Ok(())
}

pub fn run_bfe_more(op: &str, a: &[Arg], st: &mut Stats) -> Option<Out> {
    let okn = |r: BFieldElement| format!("ok:{}", r.raw_u64());
    Some(match (op, a) {
        ("bulk", [what, seed, n]) => {
            let (what, seed, n) = (what.sym()?, seed.u64()?, n.usize()?);
            if n > (1 << 21) {
                return None;
            }
            let mut r = Rng::new(seed);
            // non-zero elements, with boundary values mixed in
            let xs: Vec<BFieldElement> = (0..n)
                .map(|i| {
                    let v = match i % 7 {
                        0 => 1,
                        1 => P - 1,
                        2 => 1 << 32,
                        _ => 1 + r.next() % (P - 1),
                    };
                    BFieldElement::new(v)
                })
                .collect();
            st.hit(&format!("bulk:{}:n>=2^{}", what, (n.max(1)).ilog2()));
            match what {
                "batchinv" => {
                    let rs = BFieldElement::batch_inversion(xs.clone());
                    let bad = if rs.len() != xs.len() { Some(usize::MAX) } else { (0..n).find(|&i| mulp(rs[i].value(), xs[i].value()) != 1 || rs[i].raw_u64() >= P) };
                    Out::ok(format!("ok:{}", n)).with_oracle(bad.is_none(), &format!("bulk batch_inversion of {} elements: entry {:?} is not the canonical inverse", n, bad))
                }
                "sum" => {
                    let r: BFieldElement = xs.iter().copied().sum();
                    let want = xs.iter().fold(0u64, |acc, x| addp(acc, x.value()));
                    Out::ok(format!("ok:{}", n)).with_oracle(r.value() == want && r.raw_u64() < P, &format!("bulk sum of {} elements wrong or non-canonical", n))
                }
                _ => return None,
            }
        }
        ("incr", [x]) | ("decr", [x]) => {
            let x = x.bfe_raw()?;
            let mut r = x;
            let want = if op == "incr" {
                r.increment();
                addp(x.value(), 1)
            } else {
                r.decrement();
                subp(x.value(), 1)
            };
            st.hit(&format!("{op}:wraps={}", (op == "incr" && x.value() == P - 1) || (op == "decr" && x.value() == 0)));
            Out::ok(okn(r))
                .with_oracle(r.raw_u64() < P, format!("{op}: raw result not canonical"))
                .with_oracle(r.value() == want, format!("{op}: wrong value"))
        }
        ("addassign", [x, y]) | ("subassign", [x, y]) | ("mulassign", [x, y]) => {
            let (x, y) = (x.bfe_raw()?, y.bfe_raw()?);
            let mut r = x;
            let (want, same) = match op {
                "addassign" => {
                    r += y;
                    (addp(x.value(), y.value()), r == x + y)
                }
                "subassign" => {
                    r -= y;
                    (subp(x.value(), y.value()), r == x - y)
                }
                _ => {
                    r *= y;
                    (mulp(x.value(), y.value()), r == x * y)
                }
            };
            Out::ok(okn(r))
                .with_oracle(r.raw_u64() < P, format!("{op}: raw result not canonical"))
                .with_oracle(r.value() == want, format!("{op}: wrong value"))
                .with_oracle(same, format!("{op}: differs from the binary operator"))
        }
        ("square", [x]) => {
            let x = x.bfe_raw()?;
            let r = x.square();
            Out::ok(okn(r))
                .with_oracle(r.raw_u64() < P, "square: not canonical")
                .with_oracle(r.value() == mulp(x.value(), x.value()), "square: wrong value")
        }
        ("negt", [x]) => {
            let x = x.bfe_raw()?;
            let r = -x;
            Out::ok(okn(r))
                .with_oracle(r.raw_u64() < P, "neg: not canonical")
                .with_oracle(addp(r.value(), x.value()) == 0, "neg: x + (-x) != 0")
        }
        ("raw_u16s", [x]) => {
            let x = x.bfe_raw()?;
            let r = x.raw_u16s();
            let w = r.iter().enumerate().fold(0u64, |acc, (i, &c)| acc | ((c as u64) << (16 * i)));
            Out::ok(format!("ok:{}", fmt_list_u64(&r.map(|c| c as u64))))
                .with_oracle(w == x.raw_u64(), "raw_u16s: chunks do not recombine to the raw word")
                .with_oracle(BFieldElement::from_raw_u16s(&r) == x, "from_raw_u16s(raw_u16s(x)) != x")
        }
        ("raw_bytes", [x]) => {
            let x = x.bfe_raw()?;
            let r = x.raw_bytes();
            Out::ok(format!("ok:{}", fmt_list_u64(&r.map(|c| c as u64))))
                .with_oracle(u64::from_le_bytes(r) == x.raw_u64(), "raw_bytes: not the little-endian raw word")
                .with_oracle(BFieldElement::from_raw_bytes(&r) == x, "from_raw_bytes(raw_bytes(x)) != x")
        }
        ("from_raw_u16s", [cs]) | ("from_raw_bytes", [cs]) | ("from_raw_u64", [cs]) => {
            // raw constructors: any word is accepted, also a non-canonical one (>= P)
            let (r, w) = match op {
                "from_raw_u16s" => {
                    let cs = cs.u64s()?;
                    let cs: [u16; 4] = cs.iter().map(|&c| u16::try_from(c).ok()).collect::<Option<Vec<_>>>()?.try_into().ok()?;
                    let w = (0..4).fold(0u128, |acc, i| acc + ((cs[i] as u128) << (16 * i))) as u64;
                    let r = BFieldElement::from_raw_u16s(&cs);
                    if r.raw_u16s() != cs {
                        return Some(Out::ok(okn(r)).with_oracle(false, "raw_u16s(from_raw_u16s(c)) != c"));
                    }
                    (r, w)
                }
                "from_raw_bytes" => {
                    let bs = cs.u64s()?;
                    let bs: [u8; 8] = bs.iter().map(|&c| u8::try_from(c).ok()).collect::<Option<Vec<_>>>()?.try_into().ok()?;
                    let w = (0..8).fold(0u128, |acc, i| acc + ((bs[i] as u128) << (8 * i))) as u64;
                    let r = BFieldElement::from_raw_bytes(&bs);
                    if r.raw_bytes() != bs {
                        return Some(Out::ok(okn(r)).with_oracle(false, "raw_bytes(from_raw_bytes(b)) != b"));
                    }
                    (r, w)
                }
                _ => {
                    let w = cs.u64()?;
                    (BFieldElement::from_raw_u64(w), w)
                }
            };
            let canonical = w < P;
            st.hit(&format!("{op}:canonical={canonical}"));
            // the value is w * 2^-64 mod P in both cases; only canonical words are the representation `new` would choose
            let renorm = BFieldElement::new(r.value());
            Out::ok(okn(r))
                .with_oracle(r.raw_u64() == w, format!("{op}: raw word differs from the input"))
                .with_oracle(mulp(r.value(), ((1u128 << 64) % P as u128) as u64) == w % P, format!("{op}: value is not w * 2^-64"))
                .with_oracle(BFieldElement::is_canonical(w) == canonical, "is_canonical disagrees with w < P")
                .with_oracle((renorm == r) == canonical, format!("{op}: new(value(r)) == r must hold exactly for canonical words"))
        }
        ("raw_u128", [x]) => {
            let x = x.bfe_raw()?;
            Out::ok(format!("ok:{}", x.raw_u128())).with_oracle(x.raw_u128() == x.raw_u64() as u128, "raw_u128 != raw_u64")
        }
        ("raw_u64", [x]) => {
            let w = x.u64()?;
            let r = BFieldElement::from_raw_u64(w).raw_u64();
            Out::ok(format!("ok:{}", r)).with_oracle(r == w, "raw_u64(from_raw_u64(w)) != w")
        }
        ("is_canonical", [w]) => {
            let w = w.u64()?;
            let r = BFieldElement::is_canonical(w);
            st.hit(&format!("is_canonical:{r}"));
            Out::ok(format!("ok:{}", r)).with_oracle(r == (w < P), "is_canonical != (w < P)")
        }
        ("is_zero", [x]) => {
            let x = x.bfe_raw()?;
            let r = x.is_zero();
            Out::ok(format!("ok:{}", r)).with_oracle(r == (x.value() == 0), "is_zero != (value == 0)")
        }
        ("is_one", [x]) => {
            let x = x.bfe_raw()?;
            let r = x.is_one();
            Out::ok(format!("ok:{}", r)).with_oracle(r == (x.value() == 1), "is_one != (value == 1)")
        }
        ("const", [c]) => match c.sym()? {
            "ZERO" => Out::ok(okn(BFieldElement::ZERO)).with_oracle(BFieldElement::ZERO.value() == 0, "ZERO"),
            "ONE" => Out::ok(okn(BFieldElement::ONE)).with_oracle(BFieldElement::ONE.value() == 1, "ONE"),
            "zero" => Out::ok(okn(BFieldElement::zero())).with_oracle(BFieldElement::zero().value() == 0, "zero()"),
            "one" => Out::ok(okn(BFieldElement::one())).with_oracle(BFieldElement::one().value() == 1, "one()"),
            "generator" => {
                let g = BFieldElement::generator();
                // a generator of the multiplicative group: order exactly P - 1
                Out::ok(okn(g)).with_oracle(g.raw_u64() < P && order(g.value()) == P - 1, "generator() does not have order P - 1")
            }
            "MINUS_TWO_INVERSE" => {
                let m = BFieldElement::MINUS_TWO_INVERSE;
                Out::ok(okn(m)).with_oracle(m.raw_u64() < P && addp(mulp(m.value(), 2), 1) == 0, "MINUS_TWO_INVERSE * 2 != -1")
            }
            "P" => Out::ok(format!("ok:{}", BFieldElement::P)).with_oracle(BFieldElement::P as u128 == (1u128 << 64) - (1u128 << 32) + 1, "P"),
            "MAX" => Out::ok(format!("ok:{}", BFieldElement::MAX)).with_oracle(BFieldElement::MAX == BFieldElement::P - 1, "MAX"),
            "BYTES" => Out::ok(format!("ok:{}", BFieldElement::BYTES)).with_oracle(BFieldElement::BYTES == 8, "BYTES"),
            "default" => {
                let d = BFieldElement::default();
                Out::ok(okn(d)).with_oracle(d == BFieldElement::ZERO && d.value() == 0, "default() is not the canonical zero")
            }
            _ => return None,
        },
        ("pow32", [x, e]) => {
            let (x, e) = (x.bfe_raw()?, u32::try_from(e.u64()?).ok()?);
            let r = x.mod_pow_u32(e);
            Out::ok(okn(r))
                .with_oracle(r.raw_u64() < P, "mod_pow_u32: not canonical")
                .with_oracle(r.value() == powp(x.value(), e as u128), "mod_pow_u32: wrong value")
        }
        ("pow64", [x, e]) => {
            let (x, e) = (x.bfe_raw()?, e.u64()?);
            let r = x.mod_pow_u64(e);
            Out::ok(okn(r))
                .with_oracle(r.raw_u64() < P, "mod_pow_u64: not canonical")
                .with_oracle(r.value() == powp(x.value(), e as u128), "mod_pow_u64: wrong value")
        }
        ("from_uint", [ty, v]) => {
            let v = v.u64()?;
            let r = match ty.sym()? {
                "u8" => BFieldElement::from(u8::try_from(v).ok()?),
                "u16" => BFieldElement::from(u16::try_from(v).ok()?),
                "u32" => BFieldElement::from(u32::try_from(v).ok()?),
                "u64" => BFieldElement::from(v),
                "usize" => BFieldElement::from(v as usize),
                _ => return None,
            };
            st.hit(if v >= P { "from_uint:>=P" } else { "from_uint:<P" });
            Out::ok(okn(r))
                .with_oracle(r.raw_u64() < P, "From<uint>: not canonical")
                .with_oracle(r.value() == v % P, "From<uint>: wrong value")
        }
        ("to_uint", [ty, x]) => {
            let x = x.bfe_raw()?;
            let (r, r2): (u128, u128) = match ty.sym()? {
                "u64" => (u64::from(x) as u128, u64::from(&x) as u128),
                "u128" => (u128::from(x), u128::from(&x)),
                "i128" => (u128::try_from(i128::from(x)).ok()?, u128::try_from(i128::from(&x)).ok()?),
                _ => return None,
            };
            Out::ok(format!("ok:{}", r))
                .with_oracle(r == x.value() as u128 && r < P as u128, "From<BFieldElement> for int: not the canonical value")
                .with_oracle(r == r2, "From<&BFieldElement> differs")
        }
        ("proot", [n]) => {
            let n = n.u64()?;
            match BFieldElement::primitive_root_of_unity(n) {
                Some(r) => {
                    st.hit("proot:some");
                    let v = r.value();
                    // primitive n-th root: v^n = 1 and, n a power of two >= 2, v^(n/2) = -1
                    let ok = r.raw_u64() < P && powp(v, n as u128) == 1 && (n < 2 || (n.is_power_of_two() && powp(v, (n / 2) as u128) == P - 1));
                    Out::ok(format!("ok:some:{}", r.raw_u64())).with_oracle(ok, "primitive_root_of_unity(n) is not a primitive n-th root")
                }
                None => {
                    st.hit("proot:none");
                    // no key: n is not a power of two <= 2^32 (0 and 1 are keys)
                    Out::ok("ok:none").with_oracle(!(n <= 1 || (n.is_power_of_two() && n <= 1 << 32)), "no root for a power of two <= 2^32")
                }
            }
        }
        ("cyc", [g, m]) => {
            let g = g.bfe_raw()?;
            let max = parse_max(m)?;
            let gv = g.value();
            // never call the unbounded loop on an input that keeps it running (zero: forever; order > limit: too long)
            if max.is_none() && (gv == 0 || order(gv) > CYC_LIMIT) {
                return None;
            }
            if max.is_some_and(|m| m as u64 > 4 * CYC_LIMIT) {
                return None;
            }
            let r = g.get_cyclic_group_elements(max);
            st.hit(&format!("cyc:max={} stopped-by={}", if max.is_some() { "some" } else { "none" }, if (r.last().copied().unwrap_or(g) * g).is_one() { "one" } else { "max" }));
            let n = r.len().saturating_sub(1);
            let res = cyc_oracle(
                r.len(),
                |i| r[i].raw_u64() < P && r[i].value() == powp(gv, i as u128),
                powp(gv, n as u128 + 1) == 1,
                (2..=n).any(|j| powp(gv, j as u128) == 1),
                max,
            );
            let mut o = Out::ok(format!("ok:{}", fmt_bfes_raw(&r)));
            if let Err(e) = res {
                o = o.with_oracle(false, format!("get_cyclic_group_elements({}): {e}", fmt_max(max)));
            }
            if max.is_none() && gv != 0 {
                let ord = order(gv) as usize;
                o = o.with_oracle(r.len() == ord.max(2), "unbounded call: length is not max(order, 2)");
            }
            o
        }
        ("cycrun", [g, n]) => {
            // is the loop still running after n iterations (no bound)?  Evaluated on the implementation through the bound
            // n + 1: it ran n iterations iff n + 1 elements came back, and it would go on iff g^(n+1) != 1.
            let (g, n) = (g.bfe_raw()?, n.usize()?);
            if n == 0 || n as u64 > 4 * CYC_LIMIT {
                return None;
            }
            let r = g.get_cyclic_group_elements(Some(n + 1));
            let running = r.len() == n + 1 && !(r[n] * g).is_one();
            st.hit(&format!("cycrun:{}", if running { "running" } else { "stopped" }));
            let gv = g.value();
            let want = (2..=n as u128 + 1).all(|j| powp(gv, j) != 1);
            Out::ok(if running { "ok:running" } else { "ok:stopped" }).with_oracle(running == want, "cycrun: disagrees with the powers of g")
        }
        _ => return None,
    })
}

pub fn run_xfe_more(op: &str, a: &[Arg], st: &mut Stats) -> Option<Out> {
    let okx = |r: &XFieldElement| format!("ok:{}", fmt_xfe_raw(r));
    let one = [1u64, 0, 0];
    Some(match (op, a) {
        ("bulk", [what, seed, n]) => {
            let (what, seed, n) = (what.sym()?, seed.u64()?, n.usize()?);
            if n > (1 << 21) {
                return None;
            }
            let mut r = Rng::new(seed ^ 0x5eed);
            let xs: Vec<XFieldElement> = (0..n)
                .map(|i| {
                    let c = |r: &mut Rng| BFieldElement::new(r.next() % P);
                    match i % 5 {
                        0 => XFieldElement::new([BFieldElement::new(1), BFieldElement::new(0), BFieldElement::new(0)]),
                        1 => XFieldElement::new([BFieldElement::new(0), BFieldElement::new(P - 1), BFieldElement::new(0)]),
                        _ => XFieldElement::new([BFieldElement::new(1 + r.next() % (P - 1)), c(&mut r), c(&mut r)]),
                    }
                })
                .collect();
            st.hit(&format!("xbulk:{}:n>=2^{}", what, (n.max(1)).ilog2()));
            match what {
                "batchinv" => {
                    let rs = XFieldElement::batch_inversion(xs.clone());
                    let bad = if rs.len() != xs.len() { Some(usize::MAX) } else { (0..n).find(|&i| xv(&(rs[i] * xs[i])) != one || rs[i].coefficients.iter().any(|c| c.raw_u64() >= P)) };
                    Out::ok(format!("ok:{}", n)).with_oracle(bad.is_none(), &format!("bulk batch_inversion of {} extension-field elements: entry {:?} is not the canonical inverse", n, bad))
                }
                "sum" => {
                    let r: XFieldElement = xs.iter().copied().sum();
                    let mut want = [0u64; 3];
                    for x in &xs {
                        let v = xv(x);
                        for k in 0..3 {
                            want[k] = addp(want[k], v[k]);
                        }
                    }
                    Out::ok(format!("ok:{}", n)).with_oracle(xv(&r) == want && r.coefficients.iter().all(|c| c.raw_u64() < P), &format!("bulk sum of {} extension-field elements wrong or non-canonical", n))
                }
                _ => return None,
            }
        }
        ("newconst", [b]) => {
            let b = b.bfe_raw()?;
            let r = XFieldElement::new_const(b);
            Out::ok(okx(&r))
                .with_oracle(xv(&r) == [b.value(), 0, 0], "new_const: not (b, 0, 0)")
                .with_oracle(r == b.lift() && r == XFieldElement::from(b) && r.unlift() == Some(b), "new_const / lift / From / unlift disagree")
        }
        ("tryfrom", [cs]) => {
            let cs: Vec<BFieldElement> = cs.u64s()?.into_iter().map(BFieldElement::from_raw_u64).collect();
            let r = XFieldElement::try_from(cs.as_slice());
            let r2 = XFieldElement::try_from(cs.clone());
            st.hit(&format!("tryfrom:len={}", cs.len().min(4)));
            match r {
                Ok(x) => Out::ok(okx(&x))
                    .with_oracle(cs.len() == 3 && x.coefficients.to_vec() == cs, "TryFrom<&[BFieldElement]>: accepted but not the three elements")
                    .with_oracle(r2 == Ok(x), "TryFrom<Vec> differs"),
                Err(_) => Out::ok("err").with_oracle(cs.len() != 3, "TryFrom<&[BFieldElement]> rejected three elements").with_oracle(r2.is_err(), "TryFrom<Vec> differs"),
            }
        }
        ("is_zero", [x]) => {
            let x = x.xfe_raw()?;
            let r = x.is_zero();
            Out::ok(format!("ok:{}", r)).with_oracle(r == (xv(&x) == [0, 0, 0]), "is_zero")
        }
        ("is_one", [x]) => {
            let x = x.xfe_raw()?;
            let r = x.is_one();
            Out::ok(format!("ok:{}", r)).with_oracle(r == (xv(&x) == one), "is_one")
        }
        ("incr", [x, i]) | ("decr", [x, i]) => {
            let (x, i) = (x.xfe_raw()?, i.usize()?);
            st.hit(&format!("x{op}:index={}", i.min(3)));
            let mut r = x;
            let mut want = xv(&x);
            if op == "incr" {
                r.increment(i); // panics for i >= 3 (caught by the main loop -> `panic`)
                want[i] = addp(want[i], 1);
            } else {
                r.decrement(i);
                want[i] = subp(want[i], 1);
            }
            Out::ok(okx(&r)).with_oracle(xcanon(&r) && xv(&r) == want, format!("xfe {op}: wrong coefficients"))
        }
        ("badd", [b, x]) => {
            let (b, x) = (b.bfe_raw()?, x.xfe_raw()?);
            let r = b + x;
            let v = xv(&x);
            Out::ok(okx(&r)).with_oracle(xcanon(&r) && xv(&r) == [addp(v[0], b.value()), v[1], v[2]], "bfe + xfe wrong")
        }
        ("bmul", [b, x]) => {
            let (b, x) = (b.bfe_raw()?, x.xfe_raw()?);
            let r = b * x;
            Out::ok(okx(&r)).with_oracle(xcanon(&r) && xv(&r) == xv(&x).map(|c| mulp(c, b.value())), "bfe * xfe wrong")
        }
        ("subneg", [x, y]) => {
            let (x, y) = (x.xfe_raw()?, y.xfe_raw()?);
            let r = x - y;
            let want = [0, 1, 2].map(|i| subp(xv(&x)[i], xv(&y)[i]));
            Out::ok(okx(&r)).with_oracle(xcanon(&r) && xv(&r) == want, "xfe - xfe wrong")
        }
        ("subbneg", [x, b]) => {
            let (x, b) = (x.xfe_raw()?, b.bfe_raw()?);
            let r = x - b;
            let v = xv(&x);
            Out::ok(okx(&r)).with_oracle(xcanon(&r) && xv(&r) == [subp(v[0], b.value()), v[1], v[2]], "xfe - bfe wrong")
        }
        ("bsubneg", [b, x]) => {
            let (b, x) = (b.bfe_raw()?, x.xfe_raw()?);
            let r = b - x;
            let v = xv(&x);
            Out::ok(okx(&r)).with_oracle(xcanon(&r) && xv(&r) == [subp(b.value(), v[0]), subp(0, v[1]), subp(0, v[2])], "bfe - xfe wrong")
        }
        ("addassign", [x, y]) | ("subassign", [x, y]) | ("mulassign", [x, y]) => {
            let (x, y) = (x.xfe_raw()?, y.xfe_raw()?);
            let mut r = x;
            let (want, same) = match op {
                "addassign" => {
                    r += y;
                    ([0, 1, 2].map(|i| addp(xv(&x)[i], xv(&y)[i])), r == x + y)
                }
                "subassign" => {
                    r -= y;
                    ([0, 1, 2].map(|i| subp(xv(&x)[i], xv(&y)[i])), r == x - y)
                }
                _ => {
                    r *= y;
                    (xmul_ref(xv(&x), xv(&y)), r == x * y)
                }
            };
            Out::ok(okx(&r))
                .with_oracle(xcanon(&r) && xv(&r) == want, format!("xfe {op}: wrong value"))
                .with_oracle(same, format!("xfe {op}: differs from the binary operator"))
        }
        ("addassignb", [x, b]) | ("subassignb", [x, b]) | ("mulassignb", [x, b]) => {
            let (x, b) = (x.xfe_raw()?, b.bfe_raw()?);
            let mut r = x;
            let v = xv(&x);
            let (want, same) = match op {
                "addassignb" => {
                    r += b;
                    ([addp(v[0], b.value()), v[1], v[2]], r == x + b)
                }
                "subassignb" => {
                    r -= b;
                    ([subp(v[0], b.value()), v[1], v[2]], r == x - b)
                }
                _ => {
                    r *= b;
                    (v.map(|c| mulp(c, b.value())), r == x * b)
                }
            };
            Out::ok(okx(&r))
                .with_oracle(xcanon(&r) && xv(&r) == want, format!("xfe {op}: wrong value"))
                .with_oracle(same, format!("xfe {op}: differs from the binary operator"))
        }
        ("sum", [xs]) => {
            let xs: Vec<XFieldElement> = xs.list()?.iter().map(|a| a.xfe_raw()).collect::<Option<_>>()?;
            let r: XFieldElement = xs.iter().copied().sum();
            let want = xs.iter().fold([0u64; 3], |acc, x| [0, 1, 2].map(|i| addp(acc[i], xv(x)[i])));
            Out::ok(okx(&r)).with_oracle(xcanon(&r) && xv(&r) == want, "xfe sum wrong")
        }
        ("pow32", [x, e]) => {
            let (x, e) = (x.xfe_raw()?, u32::try_from(e.u64()?).ok()?);
            let r = x.mod_pow_u32(e);
            Out::ok(okx(&r)).with_oracle(xcanon(&r) && xv(&r) == xpow_ref(xv(&x), e as u128), "xfe mod_pow_u32 wrong")
        }
        ("proot", [n]) => {
            let n = n.u64()?;
            let b = BFieldElement::primitive_root_of_unity(n);
            match XFieldElement::primitive_root_of_unity(n) {
                Some(r) => Out::ok(format!("ok:some:{}", fmt_xfe_raw(&r))).with_oracle(r.unlift() == b && b.is_some(), "xfe root is not the lifted bfe root"),
                None => Out::ok("ok:none").with_oracle(b.is_none(), "xfe root missing although the bfe root exists"),
            }
        }
        ("cyc", [g, m]) => {
            let g = g.xfe_raw()?;
            let max = parse_max(m)?;
            let gv = xv(&g);
            if max.is_none() {
                // only inputs whose order is known to be small: the driver's own powers decide, before the real call
                let mut p = gv;
                let mut small = false;
                for _ in 0..CYC_LIMIT {
                    p = xmul_ref(p, gv);
                    if p == one {
                        small = true;
                        break;
                    }
                }
                if !small {
                    return None;
                }
            }
            if max.is_some_and(|m| m as u64 > 4 * CYC_LIMIT) {
                return None;
            }
            let r = g.get_cyclic_group_elements(max);
            st.hit(&format!("xcyc:max={} base-field={}", if max.is_some() { "some" } else { "none" }, g.unlift().is_some()));
            let n = r.len().saturating_sub(1);
            let mut pows = vec![one];
            for _ in 0..=n {
                let l = *pows.last().unwrap();
                pows.push(xmul_ref(l, gv));
            }
            let res = cyc_oracle(r.len(), |i| xcanon(&r[i]) && xv(&r[i]) == pows[i], pows[n + 1] == one, (2..=n).any(|j| pows[j] == one), max);
            let mut o = Out::ok(format!("ok:[{}]", r.iter().map(fmt_xfe_raw).collect::<Vec<_>>().join(",")));
            if let Err(e) = res {
                o = o.with_oracle(false, format!("xfe get_cyclic_group_elements({}): {e}", fmt_max(max)));
            }
            o
        }
        ("cycrun", [g, n]) => {
            let (g, n) = (g.xfe_raw()?, n.usize()?);
            if n == 0 || n as u64 > 4 * CYC_LIMIT {
                return None;
            }
            let r = g.get_cyclic_group_elements(Some(n + 1));
            let running = r.len() == n + 1 && !(r[n] * g).is_one();
            st.hit(&format!("xcycrun:{}", if running { "running" } else { "stopped" }));
            let gv = xv(&g);
            let mut p = gv;
            let mut want = true;
            for _ in 2..=n + 1 {
                p = xmul_ref(p, gv);
                if p == one {
                    want = false;
                }
            }
            Out::ok(if running { "ok:running" } else { "ok:stopped" }).with_oracle(running == want, "xfe cycrun: disagrees with the powers of g")
        }
        ("batchinv", [xs]) => {
            let xs: Vec<XFieldElement> = xs.list()?.iter().map(|a| a.xfe_raw()).collect::<Option<_>>()?;
            st.hit(&format!("xbatchinv:len={} zero={}", xs.len().min(3), xs.iter().any(|x| x.is_zero())));
            let r = XFieldElement::batch_inversion(xs.clone());
            let ok = r.len() == xs.len() && r.iter().zip(&xs).all(|(a, b)| xcanon(a) && xmul_ref(xv(a), xv(b)) == one);
            Out::ok(format!("ok:[{}]", r.iter().map(fmt_xfe_raw).collect::<Vec<_>>().join(","))).with_oracle(ok, "xfe batch inversion wrong")
        }
        _ => return None,
    })
}
