// PROP: C04 C10  FAMILIES:
//! C04 / C10 growth -- BULK and HISTORY ops of the Merkle-tree properties (families `mt` and `mtb`; `c04.rs` and `c10.rs`
//! fall through to `run_mt_more` / `run_mtb_more`).  The model has no opinion on these ops (`skip`): every one carries
//! its own implementation-side oracle, computed with the top-down reference of c04.rs (`ref_tree`, `ref_needed`,
//! `ref_check`) that uses nothing of merkle_tree.rs but `Tip5::hash_pair`.
//!
//!   mt  bulk proof <seed> <log2 n> <k> <pattern>      tree of 2^log2n seed-derived leafs, k leaf indices
//!        (pattern 0 random with repetitions | 1 sorted | 2 reversed | 3 strided | 4 adjacent run | 5 even indices 0,2,4,..),
//!        authentication_structure / inclusion_proof_for_leaf_indices / verify / into_authentication_paths against
//!        the recomputation from the leafs            -> ok:<n>|<k>|<len auth>|<root>
//!   mtb bulk build <seed> <log2 n>                    from_digests against the sequential recomputation -> ok:<root>
//!   mtb proof_env <cutoff|unset> <threads> <seed> <log2 n> <k> <pattern>
//!        `mt bulk proof ...` in a CHILD process started with the parallelisation cut-off / thread count given (the
//!        cut-off is a lazy static read once per process); the child's reply must equal the reply of this process
//!   mt  hist <seed>                                    call HISTORIES inside one process / one op: a refused request
//!        (out-of-range index after valid ones) followed by honest requests, large-then-small, same size / different
//!        content, rejected-then-accepted verification -- each later answer must be what a fresh process would give
use crate::registry::c04::{fmt_paths, paths_reply, ref_needed, ref_tree, verify_reply};
use crate::util::*;
use std::io::{Read, Write};
use std::process::{Command, Stdio};
use std::time::{Duration, Instant};
use twenty_first::prelude::*;

const ENV_CUTOFF: &str = "TWENTY_FIRST_MERKLE_TREE_PARALLELIZATION_CUTOFF";
const CHILD_TIMEOUT: Duration = Duration::from_secs(60);

fn leaves_of(seed: u64, n: usize) -> Vec<Digest> {
    let mut r = Rng::new(seed);
    (0..n).map(|_| r.digest_u()).collect()
}

fn indices_of(seed: u64, n: usize, k: usize, pattern: u64) -> Vec<usize> {
    let mut r = Rng::new(seed ^ 0x5151_5151);
    let mut v: Vec<usize> = match pattern {
        3 => {
            let stride = (n / k.max(1)).max(1) | 1;
            let s = r.below(n as u64) as usize;
            (0..k).map(|j| (s + j * stride) % n).collect()
        }
        4 => {
            let s = r.below(n as u64) as usize;
            (0..k).map(|j| (s + j) % n).collect()
        }
        5 => (0..k).map(|j| (2 * j) % n).collect(),
        _ => (0..k).map(|_| r.below(n as u64) as usize).collect(),
    };
    match pattern {
        1 => v.sort_unstable(),
        2 => {
            v.sort_unstable();
            v.reverse();
        }
        _ => {}
    }
    v
}

fn honest_path(rt: &[Digest], n: usize, i: usize) -> Vec<Digest> {
    let mut k = i + n;
    let mut v = vec![];
    while k > 1 {
        v.push(rt[k ^ 1]);
        k /= 2;
    }
    v
}

/// the whole prover / verifier surface for one tree and one index list, against the recomputation from the leafs
fn bulk_proof(ds: &[Digest], is: &[usize], st: &mut Stats) -> Out {
    let n = ds.len();
    let h = n.ilog2() as usize;
    let Ok(tree) = MerkleTree::new::<CpuParallel>(ds) else { return Out::ok("err:build").with_oracle(false, "from_digests rejects a power-of-two number of leafs") };
    let rt = ref_tree(ds);
    let mut sorted: Vec<usize> = is.to_vec();
    sorted.sort_unstable();
    sorted.dedup();
    let want_auth: Vec<Digest> = ref_needed(h, &sorted).iter().map(|&k| rt[k]).collect();
    let want_leafs: Vec<(usize, Digest)> = is.iter().map(|&i| (i, ds[i])).collect();
    let auth = tree.authentication_structure(is);
    let proof = tree.inclusion_proof_for_leaf_indices(is);
    let mut o = Out::ok(format!("ok:{}|{}|{}|{}", n, is.len(), want_auth.len(), fmt_digest(&rt[1])))
        .with_oracle(tree.nodes() == &rt[..], format!("from_digests of {} leafs: nodes differ from the sequential recomputation", n))
        .with_oracle(auth.as_ref().ok() == Some(&want_auth), format!("authentication_structure for {} indices of a {}-leaf tree is not the minimal node set (descending) recomputed from the leafs", is.len(), n));
    let Ok(p) = proof else { return o.with_oracle(false, "inclusion_proof_for_leaf_indices: Err although all indices are in range") };
    // totality first, call by call (a panic inside one of them is named, not just reported for the whole op)
    let threads = rayon::current_num_threads();
    let pv = std::panic::catch_unwind(std::panic::AssertUnwindSafe(|| p.clone().verify(rt[1])));
    if pv.is_err() {
        return o.with_oracle(false, format!("MerkleTreeInclusionProof::verify PANICS on the honest proof for {} indices of a {}-leaf tree ({} worker threads)", is.len(), n, threads));
    }
    let pp = std::panic::catch_unwind(std::panic::AssertUnwindSafe(|| p.clone().into_authentication_paths().is_ok()));
    if pp.is_err() {
        return o.with_oracle(false, format!("MerkleTreeInclusionProof::into_authentication_paths PANICS on the honest proof for {} indices of a {}-leaf tree ({} worker threads)", is.len(), n, threads));
    }
    let (vr, vf) = verify_reply(p.tree_height, &p.indexed_leafs, &p.authentication_structure, rt[1], st);
    let (pr, pf) = paths_reply(p.tree_height, &p.indexed_leafs, &p.authentication_structure, st);
    let honest: Vec<Vec<Digest>> = is.iter().map(|&i| honest_path(&rt, n, i)).collect();
    let mut wrong_root = rt[1];
    wrong_root.0[4] = wrong_root.0[4] + BFieldElement::new(1);
    let mut tampered = p.clone();
    let tamper_rejected = if let Some(d) = tampered.authentication_structure.last_mut() {
        d.0[0] = d.0[0] + BFieldElement::new(1);
        !tampered.verify(rt[1])
    } else {
        true
    };
    o = o
        .with_oracle(p.tree_height == h && p.indexed_leafs == want_leafs, "inclusion proof: wrong height / indexed leafs")
        .with_oracle(p.authentication_structure == want_auth, "inclusion proof: authentication structure is not the minimal set recomputed from the leafs")
        .with_oracle(vr == "ok:true", format!("honest inclusion proof for {} indices of a {}-leaf tree does not verify against the recomputed root", is.len(), n))
        .with_oracle(is.is_empty() || !p.clone().verify(wrong_root), "honest non-trivial proof verifies against a different root")
        .with_oracle(tamper_rejected, "proof with one altered authentication digest verifies")
        .with_oracle(pr == format!("ok:{}", fmt_paths(&honest)), format!("honest proof for {} indices of a {}-leaf tree does not expand to the sibling paths recomputed from the leafs", is.len(), n));
    if let Some(w) = vf { o = o.with_oracle(false, w); }
    if let Some(w) = pf { o = o.with_oracle(false, w); }
    o
}

fn usz(a: &Arg) -> Option<usize> { a.usize() }

pub fn run_mt_more(op: &str, a: &[Arg], st: &mut Stats) -> Option<Out> {
    Some(match (op, a) {
        ("bulk", [what, seed, lg, k, pat]) if what.sym()? == "proof" => {
            let (seed, lg, k, pat) = (seed.u64()?, usz(lg)?, usz(k)?, pat.u64()?);
            if lg > 18 || k > 1 << 17 { return None; }
            let n = 1usize << lg;
            st.hit(&format!("bulk:proof:log2n={}:k>=2^{}:pattern={}", lg, k.max(1).ilog2(), pat));
            bulk_proof(&leaves_of(seed, n), &indices_of(seed, n, k, pat), st)
        }
        ("hist", [seed]) => hist(seed.u64()?, st),
        _ => return None,
    })
}

/// call histories on ONE thread; every expected value is recomputed from the leafs
fn hist(seed: u64, st: &mut Stats) -> Out {
    let mut r = Rng::new(seed);
    let mut o = Out::ok("ok");
    let mut steps = 0u32;
    // one honest request, checked against the reference
    let mut honest = |tree: &MerkleTree, ds: &[Digest], is: &[usize], after: &str, o: Out, st: &mut Stats| -> Out {
        let n = ds.len();
        let h = n.ilog2() as usize;
        let rt = ref_tree(ds);
        let mut sorted = is.to_vec();
        sorted.sort_unstable();
        sorted.dedup();
        let want: Vec<Digest> = ref_needed(h, &sorted).iter().map(|&k| rt[k]).collect();
        steps += 1;
        let a = tree.authentication_structure(is);
        let o = o.with_oracle(a.as_ref().ok() == Some(&want), format!("history: authentication_structure({:?}) of a {}-leaf tree {} is not the node set a fresh process returns", is, n, after));
        let p = MerkleTreeInclusionProof { tree_height: h, indexed_leafs: is.iter().map(|&i| (i, ds[i])).collect(), authentication_structure: want.clone() };
        let (vr, _) = verify_reply(h, &p.indexed_leafs, &p.authentication_structure, rt[1], st);
        let o = o.with_oracle(vr == "ok:true", format!("history: honest proof for {:?} of a {}-leaf tree is rejected {}", is, n, after));
        let paths: Vec<Vec<Digest>> = is.iter().map(|&i| honest_path(&rt, n, i)).collect();
        let got = p.clone().into_authentication_paths();
        let o = o.with_oracle(got.as_ref().ok() == Some(&paths), format!("history: into_authentication_paths of the honest proof for {:?} of a {}-leaf tree {} differs from the sibling paths", is, n, after));
        match tree.inclusion_proof_for_leaf_indices(is) {
            Ok(q) => o.with_oracle(q.authentication_structure == want && q.verify(rt[1]), format!("history: inclusion_proof_for_leaf_indices({:?}) of a {}-leaf tree {} is wrong or does not verify", is, n, after)),
            Err(_) => o.with_oracle(false, format!("history: inclusion_proof_for_leaf_indices({:?}) errs {}", is, after)),
        }
    };
    for round in 0..6u64 {
        let h = [1usize, 3, 4, 6, 8, 10][round as usize];
        let n = 1usize << h;
        let ds = leaves_of(r.next(), n);
        let tree = MerkleTree::new::<CpuParallel>(&ds).unwrap();
        let idx = |r: &mut Rng| r.below(n as u64) as usize;
        // (i) refused request: valid indices, then one out of range (every position class), then honest requests
        for bad in [n, n + 1, 2 * n, usize::MAX] {
            let valid: Vec<usize> = (0..1 + r.below(4)).map(|_| idx(&mut r)).collect();
            let mut req = valid.clone();
            let pos = match r.below(3) { 0 => req.len(), 1 => 1.min(req.len()), _ => r.below(req.len() as u64 + 1) as usize };
            req.insert(pos, bad);
            st.hit("hist:refused-then-honest");
            let refused = match r.below(3) {
                0 => tree.authentication_structure(&req).is_err(),
                1 => tree.inclusion_proof_for_leaf_indices(&req).is_err(),
                _ => tree.authentication_structure(&req).is_err() && tree.indexed_leafs(&req).is_err(),
            };
            o = o.with_oracle(refused, format!("history: request {:?} with an out-of-range index is not refused", req));
            let after = format!("after the refused request {:?}", req);
            let q = vec![idx(&mut r)];
            o = honest(&tree, &ds, &q, &after, o, st);
            o = honest(&tree, &ds, &q, "after refused + one honest request", o, st);
            // refused verification (index out of range / wrong length), then the honest one
            let rt1 = tree.root();
            let bogus = MerkleTreeInclusionProof { tree_height: h, indexed_leafs: vec![(valid[0], ds[valid[0]]), (bad, ds[0])], authentication_structure: vec![] };
            o = o.with_oracle(!bogus.clone().verify(rt1) && bogus.into_authentication_paths().is_err(), "history: proof with an out-of-range leaf index is accepted");
            o = honest(&tree, &ds, &[idx(&mut r), idx(&mut r)], "after a rejected proof", o, st);
        }
        // (ii) large then small (other tree), (iii) same size / different content, same prefix / different tail
        st.hit("hist:large-then-small");
        let big: Vec<usize> = (0..n.min(200)).map(|_| idx(&mut r)).collect();
        o = honest(&tree, &ds, &big, "as a large request", o, st);
        let ds2 = leaves_of(r.next(), 2);
        let t2 = MerkleTree::new::<CpuParallel>(&ds2).unwrap();
        o = honest(&t2, &ds2, &[1], "after a large request on a larger tree", o, st);
        o = honest(&t2, &ds2, &[], "after a one-index request", o, st);
        let mut ds3 = ds.clone();
        ds3[n - 1] = r.digest_u();
        let t3 = MerkleTree::new::<CpuParallel>(&ds3).unwrap();
        let q = vec![0, n - 1];
        o = honest(&tree, &ds, &q, "(first of two trees with the same prefix)", o, st);
        o = honest(&t3, &ds3, &q, "after the same request on a tree that differs in the last leaf only", o, st);
        let mut q2 = q.clone();
        q2[1] = n / 2;
        o = honest(&t3, &ds3, &q2, "after a request with the same first index", o, st);
    }
    Out { reply: format!("ok:{}", steps), oracle_fail: o.oracle_fail }
}

// ---------------------------------------------------------------------------------------------------------------
// family `mtb`

fn run_child_env(cutoff: &Arg, threads: usize, line: &str) -> Result<String, String> {
    let exe = std::env::current_exe().map_err(|e| e.to_string())?;
    let mut cmd = Command::new(exe);
    cmd.arg("run").stdin(Stdio::piped()).stdout(Stdio::piped()).stderr(Stdio::null());
    match cutoff {
        Arg::Sym(s) if s == "unset" => { cmd.env_remove(ENV_CUTOFF); }
        Arg::Sym(s) => { cmd.env(ENV_CUTOFF, s); }
        Arg::Nat(n) => { cmd.env(ENV_CUTOFF, n.to_string()); }
        _ => return Err("bad cutoff".into()),
    }
    cmd.env("RAYON_NUM_THREADS", threads.to_string());
    let mut child = cmd.spawn().map_err(|e| e.to_string())?;
    {
        let mut stdin = child.stdin.take().ok_or("no stdin")?;
        stdin.write_all(line.as_bytes()).map_err(|e| e.to_string())?;
        stdin.write_all(b"\n").map_err(|e| e.to_string())?;
    }
    let mut stdout = child.stdout.take().ok_or("no stdout")?;
    let reader = std::thread::spawn(move || { let mut s = String::new(); let _ = stdout.read_to_string(&mut s); s });
    let t0 = Instant::now();
    loop {
        match child.try_wait() {
            Ok(Some(_)) => break,
            Ok(None) => {
                if t0.elapsed() > CHILD_TIMEOUT {
                    let _ = child.kill();
                    let _ = child.wait();
                    return Err("timeout".into());
                }
                std::thread::sleep(Duration::from_millis(2));
            }
            Err(e) => return Err(e.to_string()),
        }
    }
    let s = reader.join().map_err(|_| "reader thread failed".to_string())?;
    Ok(s.lines().next().unwrap_or("").to_string())
}

pub fn run_mtb_more(op: &str, a: &[Arg], st: &mut Stats) -> Option<Out> {
    Some(match (op, a) {
        ("bulk", [what, seed, lg]) if what.sym()? == "build" => {
            let (seed, lg) = (seed.u64()?, usz(lg)?);
            if lg > 20 { return None; }
            let n = 1usize << lg;
            let ds = leaves_of(seed, n);
            st.hit(&format!("bulk:build:log2n={}", lg));
            // sequential recomputation, bottom-up (independent of the recursive reference, cheap at 2^18)
            let mut want = vec![Digest::default(); 2 * n];
            want[n..].copy_from_slice(&ds);
            for i in (1..n).rev() { want[i] = Tip5::hash_pair(want[2 * i], want[2 * i + 1]); }
            match MerkleTree::new::<CpuParallel>(&ds) {
                Err(_) => Out::ok("err").with_oracle(false, "from_digests rejects a power-of-two number of leafs"),
                Ok(t) => Out::ok(format!("ok:{}", fmt_digest(&want[1])))
                    .with_oracle(t.root() == want[1], format!("from_digests of 2^{} leafs: root differs from the sequential recomputation", lg))
                    .with_oracle(t.nodes()[1..] == want[1..], format!("from_digests of 2^{} leafs: a node differs from the sequential recomputation", lg))
                    .with_oracle(t.num_leafs() == n && t.height() == lg && t.leafs() == &ds[..], "from_digests: height / num_leafs / leafs wrong"),
            }
        }
        ("proof_env", [cutoff, threads, seed, lg, k, pat]) => {
            let threads = usz(threads)?;
            if threads == 0 || threads > 1024 { return None; }
            let line = format!("mt bulk proof {} {} {} {}", seed.u64()?, usz(lg)?, usz(k)?, pat.u64()?);
            st.hit(&format!("proof_env:cutoff={}:threads={}", fmt_arg(cutoff), threads));
            let here = run_mt_more("bulk", &[Arg::Sym("proof".into()), seed.clone(), lg.clone(), k.clone(), pat.clone()], &mut Stats::default())?;
            match run_child_env(cutoff, threads, &line) {
                Ok(reply) => {
                    let (r, child_oracle) = match reply.split_once("\tORACLE-FAIL:") { Some((r, o)) => (r.to_string(), Some(o.to_string())), None => (reply, None) };
                    let o = Out::ok(r.clone());
                    let o = match &child_oracle { Some(w) => o.with_oracle(false, format!("child process (cut-off {}, {} threads): {}", fmt_arg(cutoff), threads, w)), None => o };
                    let o = o.with_oracle(r == here.reply, format!("proof / verification in a child process with cut-off {} and {} threads answers {:?}, this process {:?}", fmt_arg(cutoff), threads, &r[..r.len().min(60)], &here.reply[..here.reply.len().min(60)]));
                    match here.oracle_fail { Some(w) => o.with_oracle(false, w), None => o }
                }
                Err(e) if e == "timeout" => Out::ok("timeout").with_oracle(false, format!("proof / verification did not terminate within {:?} in a child process with this environment", CHILD_TIMEOUT)),
                Err(e) => Out::ok(format!("child-error:{}", e)).with_oracle(false, "could not run the child process"),
            }
        }
        _ => return None,
    })
}

pub fn gen(rng: &mut Rng, thorough: bool, out: &mut Vec<String>) {
    // ---- HISTORY (family B): inside one op, and as consecutive lines of the existing ops (the model takes part)
    for _ in 0..(if thorough { 12 } else { 3 }) {
        out.push(format!("mt hist {}", rng.next()));
    }
    let f = |v: &[usize]| fmt_list_u64(&v.iter().map(|&x| x as u64).collect::<Vec<_>>());
    for h in [1usize, 2, 3, 5] {
        let n = 1usize << h;
        let ds = fmt_digests(&leaves_of(rng.next(), n));
        let a = rng.below(n as u64) as usize;
        let b = rng.below(n as u64) as usize;
        for bad in [n, usize::MAX] {
            for refused in ["auth_structure", "proof"] {
                out.push(format!("mt {} {} {}", refused, ds, f(&[a, bad])));
                out.push(format!("mt auth_structure {} {}", ds, f(&[b])));
                out.push(format!("mt {} {} {}", refused, ds, f(&[a, b, bad, a])));
                out.push(format!("mt proof {} {}", ds, f(&[b])));
                out.push(format!("mt proof {} {}", ds, f(&[b, a])));
            }
        }
        // large then small, same size other content
        out.push(format!("mt proof {} {}", ds, f(&(0..n).collect::<Vec<_>>())));
        out.push(format!("mt proof {} {}", fmt_digests(&leaves_of(rng.next(), 2)), f(&[1])));
        out.push(format!("mt proof {} {}", fmt_digests(&leaves_of(rng.next(), n)), f(&[a])));
        out.push(format!("mt proof {} {}", ds, f(&[a])));
    }
    // ---- BULK (family A): trees of 2^10 .. 2^16 leafs, index lists of 1 / 257 / 1023 / 4097 indices
    let shapes: &[(usize, usize, u64)] = if thorough {
        &[(10, 1, 0), (10, 257, 0), (10, 1023, 2), (10, 4097, 0), (11, 1023, 3), (12, 257, 1), (12, 4097, 3), (13, 1023, 4), (14, 4097, 2), (14, 1, 0),
          (15, 257, 3), (15, 4097, 1), (16, 1, 0), (16, 257, 0), (16, 1023, 1), (16, 4097, 0), (16, 4097, 3), (16, 4097, 4), (16, 16385, 0), (12, 2048, 5), (16, 32768, 5)]
    } else {
        &[(10, 257, 0), (10, 1023, 2), (12, 4097, 3), (13, 1023, 4), (14, 257, 1), (16, 1, 0), (16, 4097, 0), (10, 512, 5)]
    };
    for &(lg, k, pat) in shapes {
        out.push(format!("mt bulk proof {} {} {} {}", rng.next(), lg, k, pat));
    }
    for &lg in (if thorough { &[10usize, 15, 16, 17, 18][..] } else { &[16usize, 18][..] }) {
        out.push(format!("mtb bulk build {} {}", rng.next(), lg));
    }
    // ---- the verifier side under other cut-offs / thread counts (child processes): a thread count larger than the number
    //      of parents in a layer (cut-off 2, 16 threads; default cut-off, 300 threads with a 280-parent layer), a thread
    //      count that divides nothing (3, 7), cut-off 0/1
    let envs: &[(&str, usize, usize, usize, u64)] = if thorough {
        &[("2", 16, 10, 257, 0), ("unset", 300, 10, 280, 5), ("unset", 7, 12, 1023, 0), ("1", 3, 6, 5, 0), ("4", 16, 8, 40, 3), ("256", 300, 11, 600, 5),
          ("unset", 16, 12, 4097, 0), ("2", 5, 4, 3, 0), ("3", 64, 12, 257, 1), ("unset", 1, 12, 1023, 0), ("300", 400, 12, 700, 5)]
    } else {
        &[("2", 16, 10, 257, 0), ("unset", 300, 10, 280, 5), ("unset", 7, 12, 1023, 0), ("1", 3, 6, 5, 0)]
    };
    for &(c, t, lg, k, pat) in envs {
        out.push(format!("mtb proof_env {} {} {} {} {} {}", c, t, rng.next(), lg, k, pat));
    }
}
