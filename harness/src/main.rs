//! tfh -- harness driving the real `twenty-first` crate over the line protocol shared with the Lean model `tfm`.
//!
//!   tfh gen <PROP> --seed S --tier quick|thorough     -> op lines on stdout
//!   tfh run [--stats FILE]  < ops                      -> one reply line per op line on stdout;
//!                                                         a failed property oracle is appended as "\tORACLE-FAIL:<what>"
mod util;
mod registry;
use registry::*;

use std::io::{BufRead, Write};
use util::*;

fn run_line(line: &str, stats: &mut Stats) -> String {
    let toks: Vec<&str> = line.split_whitespace().collect();
    if toks.len() < 2 {
        return "bad-request".into();
    }
    let Some(f) = runner(toks[0]) else { return "skip".into() };
    let mut args = vec![];
    for t in &toks[2..] {
        match parse_arg(t) {
            Some(a) => args.push(a),
            None => return "bad-request".into(),
        }
    }
    let op = toks[1];
    stats.hit(&format!("op:{} {}", toks[0], op));
    let mut local = Stats::default();
    let res = std::panic::catch_unwind(std::panic::AssertUnwindSafe(|| f(op, &args, &mut local)));
    for (k, v) in local.counters {
        *stats.counters.entry(k).or_insert(0) += v;
    }
    match res {
        Ok(Some(out)) => match out.oracle_fail {
            Some(w) => format!("{}\tORACLE-FAIL:{}", out.reply, w),
            None => out.reply,
        },
        Ok(None) => "skip".into(),
        Err(_) => {
            stats.hit("outcome:panic");
            "panic".into()
        }
    }
}

fn main() {
    std::panic::set_hook(Box::new(|_| {}));
    let args: Vec<String> = std::env::args().collect();
    let get = |flag: &str| args.iter().position(|a| a == flag).and_then(|i| args.get(i + 1)).cloned();
    match args.get(1).map(|s| s.as_str()) {
        Some("gen") => {
            let prop = args.get(2).expect("property id");
            let seed: u64 = get("--seed").and_then(|s| s.parse().ok()).unwrap_or(1);
            let thorough = get("--tier").map(|t| t == "thorough").unwrap_or(false);
            let mut out = Vec::new();
            for (i, g) in generators(prop).into_iter().enumerate() {
                let mut rng = Rng::new(seed.wrapping_mul(0x1000_0000_01b3).wrapping_add(i as u64));
                g(&mut rng, thorough, &mut out);
            }
            let stdout = std::io::stdout();
            let mut w = std::io::BufWriter::new(stdout.lock());
            for l in out {
                writeln!(w, "{}", l).unwrap();
            }
        }
        Some("run") => {
            let mut stats = Stats::default();
            let stdin = std::io::stdin();
            let stdout = std::io::stdout();
            let mut w = std::io::BufWriter::new(stdout.lock());
            for line in stdin.lock().lines() {
                let line = line.unwrap();
                if line.trim().is_empty() || line.starts_with('#') {
                    writeln!(w, "skip").unwrap();
                    continue;
                }
                let r = run_line(&line, &mut stats);
                writeln!(w, "{}", r).unwrap();
            }
            w.flush().unwrap();
            if let Some(p) = get("--stats") {
                std::fs::write(p, serde_json::to_string_pretty(&stats.counters).unwrap()).unwrap();
            }
        }
        _ => {
            eprintln!("usage: tfh gen <PROP> --seed S --tier T | tfh run [--stats FILE]");
            std::process::exit(2);
        }
    }
}
