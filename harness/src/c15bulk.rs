// PROP: C02 C15  FAMILIES:
//! C02 / C15 growth -- BULK and HISTORY ops of family `sponge` (`c15.rs` falls through to `run_sponge_more`); operands
//! derive from a seed inside the op, implementation-side oracles only (the model answers `skip`).
//!
//!   sponge bulk varlen <seed> <n>         n-element input: `Tip5::hash_varlen` == explicit chunked absorb of
//!        input ++ [1] ++ 0^k (state[..10] overwritten per block, then `Tip5::permutation`), == a second sponge that
//!        absorbs an aligned prefix block by block (`absorb`) and the rest with `pad_and_absorb_all`; three more
//!        squeezes of both sponges agree                                   -> ok:<digest>
//!   sponge bulk indices <seed> <log2 bound> <num>   `sample_indices` with num requested items == recomputation from
//!        the squeezed stream (elements P-1 dropped), state == state after that many squeezes
//!   sponge bulk scalars <seed> <num>      `sample_scalars` == the squeezed stream in groups of three; then (history:
//!        large then small, OTHER sponge) small `sample_scalars` / `sample_indices` calls on a different sponge
//!   sponge mix <seed>                     HISTORY: `sample_scalars(n1)` on one sponge, then `sample_scalars(n2)` /
//!        `sample_indices` / `hash_varlen` on ANOTHER sponge, for all n1 in 0..=12 (3 n1 not a multiple of 10 for most),
//!        each answer recomputed from explicit squeezes on a clone
use crate::util::*;
use twenty_first::prelude::*;
use twenty_first::util_types::sponge::{Sponge, RATE};

fn vals(xs: &[BFieldElement]) -> Vec<u64> {
    xs.iter().map(|x| x.value()).collect()
}
fn input_of(r: &mut Rng, n: usize) -> Vec<BFieldElement> {
    (0..n).map(|i| match i % 11 { 0 => BFieldElement::new(P - 1), 1 => BFieldElement::new(0), 2 => BFieldElement::new(1), _ => BFieldElement::new(r.below(P)) }).collect()
}
fn sponge_of(r: &mut Rng) -> Tip5 {
    Tip5 { state: [0; 16].map(|_| BFieldElement::new(r.below(P))) }
}
fn ref_scalars(sp: &Tip5, num: usize) -> (Vec<u64>, Tip5) {
    let mut s = sp.clone();
    let mut stream = vec![];
    for _ in 0..(3 * num).div_ceil(RATE) {
        stream.extend(vals(&s.squeeze()));
    }
    stream.truncate(3 * num);
    (stream, s)
}
fn ref_indices(sp: &Tip5, bound: u64, num: usize) -> (Vec<u64>, Tip5) {
    let mut s = sp.clone();
    let mut out = vec![];
    'outer: while out.len() < num {
        for e in s.squeeze() {
            if out.len() == num { break 'outer; }
            if e.value() != P - 1 { out.push((e.value() & 0xffff_ffff) % bound); }
        }
    }
    (out, s)
}
fn check_scalars(t: &mut Tip5, num: usize, ctx: &str) -> Result<(), String> {
    let (want, want_state) = ref_scalars(t, num);
    let got: Vec<u64> = t.sample_scalars(num).iter().flat_map(|x| vals(&x.coefficients)).collect();
    if got != want {
        let at = got.iter().zip(&want).position(|(a, b)| a != b);
        return Err(format!("sample_scalars({num}) {ctx}: not the squeezed stream in groups of three (length {} vs {}, first difference at element {:?})", got.len(), want.len(), at));
    }
    if *t != want_state {
        return Err(format!("sample_scalars({num}) {ctx}: state is not the state after {} squeezes", (3 * num).div_ceil(RATE)));
    }
    Ok(())
}
fn check_indices(t: &mut Tip5, lb: u32, num: usize, ctx: &str) -> Result<(), String> {
    let bound = 1u64 << lb;
    let (want, want_state) = ref_indices(t, bound, num);
    let got: Vec<u64> = t.sample_indices(bound as u32, num).into_iter().map(|x| x as u64).collect();
    if got != want {
        return Err(format!("sample_indices(2^{lb}, {num}) {ctx}: not the first usable squeezed elements mod 2^32 mod bound"));
    }
    if *t != want_state {
        return Err(format!("sample_indices(2^{lb}, {num}) {ctx}: state is not the state after the squeezes consumed"));
    }
    Ok(())
}
fn check_varlen(input: &[BFieldElement], split_blocks: usize, ctx: &str) -> Result<Digest, String> {
    let n = input.len();
    let d = Tip5::hash_varlen(input);
    // explicit: input ++ [1] ++ 0^k in blocks of RATE, rate part overwritten, then the permutation
    let mut padded: Vec<BFieldElement> = input.to_vec();
    padded.push(BFieldElement::new(1));
    while padded.len() % RATE != 0 { padded.push(BFieldElement::new(0)); }
    let mut s = Tip5::init();
    let fresh = s.clone();
    for block in padded.chunks(RATE) {
        s.state[..RATE].copy_from_slice(block);
        s.permutation();
    }
    if d.values()[..] != s.state[..5] {
        return Err(format!("hash_varlen of {n} elements {ctx}: differs from the explicit chunked absorb of input ++ [1] ++ 0^k with Tip5::permutation per block"));
    }
    let mut one = fresh.clone();
    one.pad_and_absorb_all(input);
    if one != s {
        return Err(format!("pad_and_absorb_all of {n} elements {ctx}: state differs from the explicit chunked absorb"));
    }
    // two sponges: aligned prefix by `absorb`, rest by `pad_and_absorb_all`
    let pre = (split_blocks * RATE).min(n / RATE * RATE);
    let mut two = fresh.clone();
    for block in input[..pre].chunks(RATE) {
        two.absorb(block.try_into().unwrap());
    }
    two.pad_and_absorb_all(&input[pre..]);
    if two != one {
        return Err(format!("{n} elements {ctx}: absorbing {pre} elements block by block and the rest with pad_and_absorb_all differs from absorbing in one go"));
    }
    for k in 0..3 {
        let (a, b) = (one.squeeze(), two.squeeze());
        if a != b {
            return Err(format!("{n} elements {ctx}: squeeze {k} differs between the two sponges"));
        }
    }
    Ok(d)
}

pub fn run_sponge_more(op: &str, a: &[Arg], st: &mut Stats) -> Option<Out> {
    let wrap = |r: Result<String, String>| match r {
        Ok(s) => Out::ok(s),
        Err(e) => Out::ok("ok:fail").with_oracle(false, e),
    };
    Some(match (op, a) {
        ("bulk", [what, seed, rest @ ..]) => {
            let mut r = Rng::new(seed.u64()?);
            match (what.sym()?, rest) {
                ("varlen", [n]) => {
                    let n = n.usize()?;
                    if n > 1 << 21 { return None; }
                    st.hit(&format!("bulk:varlen:n>=2^{}:n-mod-10={}", n.max(1).ilog2(), n % 10));
                    let input = input_of(&mut r, n);
                    let split = r.below((n / RATE) as u64 + 1) as usize;
                    wrap(check_varlen(&input, split, "").map(|d| format!("ok:{}", fmt_digest(&d))))
                }
                ("indices", [lb, num]) => {
                    let (lb, num) = (u32::try_from(lb.u64()?).ok()?, num.usize()?);
                    if lb > 31 || num > 1 << 20 { return None; }
                    st.hit(&format!("bulk:indices:num>=2^{}", num.max(1).ilog2()));
                    let mut t = sponge_of(&mut r);
                    let mut other = sponge_of(&mut r);
                    wrap(check_indices(&mut t, lb, num, "")
                        .and_then(|_| check_indices(&mut other, 3, 7, "on another sponge right after a large request"))
                        .and_then(|_| check_scalars(&mut other, 2, "on another sponge right after a large sample_indices request"))
                        .map(|_| format!("ok:{}", fmt_bfes(&t.state[..2]))))
                }
                ("scalars", [num]) => {
                    let num = num.usize()?;
                    if num > 1 << 20 { return None; }
                    st.hit(&format!("bulk:scalars:num>=2^{}:3n-mod-10={}", num.max(1).ilog2(), 3 * num % 10));
                    let mut t = sponge_of(&mut r);
                    let mut other = sponge_of(&mut r);
                    wrap(check_scalars(&mut t, num, "")
                        .and_then(|_| check_scalars(&mut other, 1, "on another sponge right after a large request"))
                        .and_then(|_| check_scalars(&mut other, 4, "on another sponge, second small request"))
                        .and_then(|_| check_scalars(&mut t, 3, "on the first sponge again"))
                        .and_then(|_| check_indices(&mut other, 5, 13, "on another sponge after sample_scalars"))
                        .map(|_| format!("ok:{}", fmt_bfes(&t.state[..2]))))
                }
                _ => return None,
            }
        }
        ("mix", [seed]) => {
            let mut r = Rng::new(seed.u64()?);
            let mut n = 0u32;
            let mut res: Result<(), String> = Ok(());
            'all: for n1 in 0..=12usize {
                for n2 in [1usize, 2, 3, 7, 10] {
                    let mut a = sponge_of(&mut r);
                    let mut b = sponge_of(&mut r);
                    st.hit(&format!("mix:first 3n-mod-10={}", 3 * n1 % 10));
                    let steps: [&dyn Fn(&mut Tip5, &mut Tip5) -> Result<(), String>; 5] = [
                        &|a, _| check_scalars(a, n1, "(first call of a pair)"),
                        &|_, b| check_scalars(b, n2, &format!("on ANOTHER sponge right after sample_scalars({n1})")),
                        &|a, _| check_scalars(a, n2, &format!("on the first sponge after sample_scalars({n1}) there and one call elsewhere")),
                        &|_, b| check_indices(b, 4, n2 + 1, "on the other sponge after sample_scalars calls"),
                        &|_, _| check_varlen(&vals_to_bfes(&[n1 as u64, n2 as u64, 5]), 0, "after sampling calls").map(|_| ()),
                    ];
                    for s in steps {
                        res = s(&mut a, &mut b);
                        n += 1;
                        if res.is_err() { break 'all; }
                    }
                }
            }
            // same length / same prefix, different tail (and the first input again): three different answers, each the
            // explicit one; fixed-length hashing likewise, against the explicit permutation of input ++ 1^6
            if res.is_ok() {
                for len in [1usize, 9, 10, 11, 25, 200] {
                    let base = input_of(&mut r, len);
                    let mut tail = base.clone();
                    tail[len - 1] = tail[len - 1] + BFieldElement::new(1);
                    let mut head = base.clone();
                    head[0] = head[0] + BFieldElement::new(1);
                    st.hit("mix:same-length-same-prefix");
                    let ds: Result<Vec<Digest>, String> = [&base, &tail, &head, &base].iter().map(|i| check_varlen(i, 1, "(same length as the previous input, one element different)")).collect();
                    n += 4;
                    match ds {
                        Err(e) => { res = Err(e); break; }
                        Ok(d) => if d[0] == d[1] || d[0] == d[2] || d[0] != d[3] {
                            res = Err(format!("hash_varlen: inputs of length {len} that differ in one element do not get three different digests / the same input does not get the same digest again"));
                            break;
                        }
                    }
                }
            }
            if res.is_ok() {
                let fixed = |x: &[BFieldElement; 10]| -> Result<(), String> {
                    let mut s = Tip5::new(twenty_first::util_types::sponge::Domain::FixedLength);
                    s.state[..RATE].copy_from_slice(x);
                    s.permutation();
                    if Tip5::hash_10(x)[..] != s.state[..5] {
                        return Err("hash_10 differs from the explicit permutation of input ++ 1^6 (after an input with the same prefix)".into());
                    }
                    let (l, rr) = (Digest::new(x[..5].try_into().unwrap()), Digest::new(x[5..].try_into().unwrap()));
                    if Tip5::hash_pair(l, rr).values()[..] != s.state[..5] {
                        return Err("hash_pair differs from the explicit permutation of left ++ right ++ 1^6 (after a pair with the same left digest)".into());
                    }
                    Ok(())
                };
                let x: [BFieldElement; 10] = input_of(&mut r, 10).try_into().unwrap();
                let mut y = x;
                y[9] = y[9] + BFieldElement::new(1);
                for v in [&x, &y, &x] {
                    n += 1;
                    if let Err(e) = fixed(v) { res = Err(e); break; }
                }
            }
            wrap(res.map(|_| format!("ok:{n}")))
        }
        _ => return None,
    })
}
fn vals_to_bfes(v: &[u64]) -> Vec<BFieldElement> {
    v.iter().map(|&x| BFieldElement::new(x)).collect()
}

pub fn gen(rng: &mut Rng, thorough: bool, out: &mut Vec<String>) {
    for _ in 0..(if thorough { 6 } else { 2 }) {
        out.push(format!("sponge mix {}", rng.next()));
    }
    // history as consecutive lines of the EXISTING op (the model takes part): sample_scalars(n) with 3n not a multiple
    // of 10 on one sponge, then a call on a different sponge (every `hist` line starts from its own state)
    for n1 in [1u64, 2, 3, 4, 7, 9, 11] {
        let s1: Vec<u64> = (0..16).map(|_| rng.below(P)).collect();
        let s2: Vec<u64> = (0..16).map(|_| rng.below(P)).collect();
        out.push(format!("sponge hist {} [[3,{}]]", fmt_list_u64(&s1), n1));
        out.push(format!("sponge hist {} [[3,{}],[2,16,5],[3,1]]", fmt_list_u64(&s2), 1 + n1 % 3));
        out.push(format!("sponge hist {} [[3,{}]]", fmt_list_u64(&s1), n1));
    }
    let sizes: &[usize] = if thorough { &[1025, 4095, 4096, 4097, 16383, 16384, 16385, 65539, 262147] } else { &[4097, 16385, 65539, 262147] };
    for &n in sizes {
        out.push(format!("sponge bulk varlen {} {}", rng.next(), n));
    }
    for &n in (if thorough { &[4097usize, 16385, 65539][..] } else { &[4097usize, 65539][..] }) {
        out.push(format!("sponge bulk indices {} {} {}", rng.next(), rng.pick(&[1u64, 10, 31]), n));
        out.push(format!("sponge bulk scalars {} {}", rng.next(), n));
    }
    out.push(format!("sponge bulk varlen {} 9", rng.next()));
    out.push(format!("sponge bulk scalars {} 3", rng.next()));
}
