//! Shared helpers: PRNG, boundary-directed generators, protocol formatting/parsing, statistics.
use std::collections::BTreeMap;
use twenty_first::prelude::*;
use num_traits::ConstZero;

pub const P: u64 = 0xffff_ffff_0000_0001;

/// SplitMix64 -- every random choice of a run derives from one state (VERIF_SEED).
#[derive(Clone)]
pub struct Rng(pub u64);
impl Rng {
    pub fn new(seed: u64) -> Self {
        Rng(seed ^ 0x9E37_79B9_7F4A_7C15)
    }
    pub fn next(&mut self) -> u64 {
        self.0 = self.0.wrapping_add(0x9E37_79B9_7F4A_7C15);
        let mut z = self.0;
        z = (z ^ (z >> 30)).wrapping_mul(0xBF58_476D_1CE4_E5B9);
        z = (z ^ (z >> 27)).wrapping_mul(0x94D0_49BB_1331_11EB);
        z ^ (z >> 31)
    }
    pub fn below(&mut self, n: u64) -> u64 {
        if n == 0 {
            0
        } else {
            self.next() % n
        }
    }
    pub fn range(&mut self, lo: u64, hi: u64) -> u64 {
        lo + self.below(hi - lo + 1)
    }
    pub fn coin(&mut self, num: u64, den: u64) -> bool {
        self.below(den) < num
    }
    pub fn pick<'a, T>(&mut self, xs: &'a [T]) -> &'a T {
        &xs[self.below(xs.len() as u64) as usize]
    }
    pub fn u128(&mut self) -> u128 {
        ((self.next() as u128) << 64) | self.next() as u128
    }
    /// boundary-directed canonical field value
    pub fn fval(&mut self) -> u64 {
        const B: [u64; 22] = [
            0, 1, 2, 3, 255, 256, 257, 0xffff, 0x1_0000, 0xffff_fffe, 0xffff_ffff, 0x1_0000_0000, 0x1_0000_0001,
            1 << 63, (1 << 63) - 1, (1 << 63) + 1, P - 0xffff_ffff, P - 0x1_0000_0000, P - 257, P - 3, P - 2, P - 1,
        ];
        match self.below(10) {
            0..=3 => *self.pick(&B),
            4 => {
                // limb patterns
                let hi = *self.pick(&[0u64, 1, 0xffff_fffe, 0xffff_ffff, 0x8000_0000]);
                let lo = *self.pick(&[0u64, 1, 0xffff_fffe, 0xffff_ffff, 0x8000_0000]);
                ((hi << 32) | lo) % P
            }
            5 => self.below(1 << 16),
            _ => self.below(P),
        }
    }
    /// boundary-directed u64 (may exceed P)
    pub fn word(&mut self) -> u64 {
        const B: [u64; 8] = [P, P + 1, u64::MAX, u64::MAX - 1, P + 0xffff_fffe, 1 << 63, 0, 1];
        match self.below(6) {
            0 => *self.pick(&B),
            1 => self.next(),
            _ => self.fval(),
        }
    }
    pub fn bfe(&mut self) -> BFieldElement {
        BFieldElement::new(self.fval())
    }
    pub fn xfe(&mut self) -> XFieldElement {
        match self.below(8) {
            0 => XFieldElement::new([self.bfe(), BFieldElement::ZERO, BFieldElement::ZERO]),
            1 => XFieldElement::ZERO,
            _ => XFieldElement::new([self.bfe(), self.bfe(), self.bfe()]),
        }
    }
    pub fn digest(&mut self) -> Digest {
        // special digests: `Digest::default()` (all zero) is what unfilled slots, fillers and "vacant" markers hold, so
        // a real node that happens to carry it must not be treated specially; likewise the all-(p-1) digest
        match self.below(24) {
            0 | 1 => return Digest::default(),
            2 => return Digest::new([BFieldElement::new(P - 1); 5]),
            _ => {}
        }
        Digest::new([self.bfe(), self.bfe(), self.bfe(), self.bfe(), self.bfe()])
    }
    /// uniformly random digest (cheap; no boundary bias)
    pub fn digest_u(&mut self) -> Digest {
        Digest::new([0; 5].map(|_| BFieldElement::new(self.below(P))))
    }
    /// size around a threshold
    pub fn around(&mut self, t: u64, spread: u64) -> u64 {
        let lo = t.saturating_sub(spread);
        self.range(lo, t + spread)
    }
}

/// statistics written into the evidence: classes hit, per-op counters
#[derive(Default)]
pub struct Stats {
    pub counters: BTreeMap<String, u64>,
}
impl Stats {
    pub fn hit(&mut self, k: &str) {
        *self.counters.entry(k.to_string()).or_insert(0) += 1;
    }
}

// ---- formatting ------------------------------------------------------------------------------------
pub fn fmt_list_u64(xs: &[u64]) -> String {
    let v: Vec<String> = xs.iter().map(|x| x.to_string()).collect();
    format!("[{}]", v.join(","))
}
pub fn fmt_bfes(xs: &[BFieldElement]) -> String {
    fmt_list_u64(&xs.iter().map(|x| x.value()).collect::<Vec<_>>())
}
pub fn fmt_bfes_raw(xs: &[BFieldElement]) -> String {
    fmt_list_u64(&xs.iter().map(|x| x.raw_u64()).collect::<Vec<_>>())
}
pub fn fmt_xfe_raw(x: &XFieldElement) -> String {
    let c = x.coefficients;
    format!("({};{};{})", c[0].raw_u64(), c[1].raw_u64(), c[2].raw_u64())
}
pub fn fmt_xfe(x: &XFieldElement) -> String {
    let c = x.coefficients;
    format!("({};{};{})", c[0].value(), c[1].value(), c[2].value())
}
pub fn fmt_xfes(xs: &[XFieldElement]) -> String {
    let v: Vec<String> = xs.iter().map(fmt_xfe).collect();
    format!("[{}]", v.join(","))
}
pub fn fmt_digest(d: &Digest) -> String {
    fmt_bfes(&d.values())
}
pub fn fmt_digests(ds: &[Digest]) -> String {
    let v: Vec<String> = ds.iter().map(fmt_digest).collect();
    format!("[{}]", v.join(","))
}

// ---- parsing ---------------------------------------------------------------------------------------
#[derive(Debug, Clone, PartialEq)]
pub enum Arg {
    Nat(u128),
    Neg(u128),
    List(Vec<Arg>),
    Tup(Vec<Arg>),
    Sym(String),
}

pub fn parse_arg(s: &str) -> Option<Arg> {
    let cs: Vec<char> = s.chars().collect();
    let (a, i) = parse_at(&cs, 0)?;
    if i == cs.len() {
        Some(a)
    } else {
        None
    }
}
fn parse_at(cs: &[char], mut i: usize) -> Option<(Arg, usize)> {
    if i >= cs.len() {
        return None;
    }
    match cs[i] {
        '[' | '(' => {
            let close = if cs[i] == '[' { ']' } else { ')' };
            let sep = if cs[i] == '[' { ',' } else { ';' };
            let is_list = cs[i] == '[';
            i += 1;
            let mut items = vec![];
            loop {
                if i >= cs.len() {
                    return None;
                }
                if cs[i] == close {
                    i += 1;
                    break;
                }
                if cs[i] == sep {
                    i += 1;
                    continue;
                }
                let (a, j) = parse_at(cs, i)?;
                items.push(a);
                i = j;
            }
            Some((if is_list { Arg::List(items) } else { Arg::Tup(items) }, i))
        }
        '-' => {
            let st = i + 1;
            let mut j = st;
            while j < cs.len() && cs[j].is_ascii_digit() {
                j += 1;
            }
            if j == st {
                return None;
            }
            let s: String = cs[st..j].iter().collect();
            Some((Arg::Neg(s.parse().ok()?), j))
        }
        c if c.is_ascii_digit() => {
            let mut j = i;
            while j < cs.len() && cs[j].is_ascii_digit() {
                j += 1;
            }
            let s: String = cs[i..j].iter().collect();
            Some((Arg::Nat(s.parse().ok()?), j))
        }
        _ => {
            let ok = |c: char| c.is_ascii_alphanumeric() || "_:.<>".contains(c);
            let mut j = i;
            while j < cs.len() && ok(cs[j]) {
                j += 1;
            }
            if j == i {
                return None;
            }
            Some((Arg::Sym(cs[i..j].iter().collect()), j))
        }
    }
}

impl Arg {
    pub fn u128(&self) -> Option<u128> {
        match self {
            Arg::Nat(n) => Some(*n),
            _ => None,
        }
    }
    pub fn u64(&self) -> Option<u64> {
        self.u128().and_then(|n| u64::try_from(n).ok())
    }
    pub fn usize(&self) -> Option<usize> {
        self.u64().map(|n| n as usize)
    }
    pub fn i128(&self) -> Option<i128> {
        match self {
            Arg::Nat(n) => i128::try_from(*n).ok(),
            Arg::Neg(n) => i128::try_from(*n).ok().map(|x| -x),
            _ => None,
        }
    }
    pub fn sym(&self) -> Option<&str> {
        match self {
            Arg::Sym(s) => Some(s),
            _ => None,
        }
    }
    pub fn list(&self) -> Option<&[Arg]> {
        match self {
            Arg::List(v) => Some(v),
            _ => None,
        }
    }
    pub fn u64s(&self) -> Option<Vec<u64>> {
        self.list()?.iter().map(|a| a.u64()).collect()
    }
    /// list of canonical values -> field elements
    pub fn bfes(&self) -> Option<Vec<BFieldElement>> {
        Some(self.u64s()?.into_iter().map(BFieldElement::new).collect())
    }
    pub fn bfe(&self) -> Option<BFieldElement> {
        self.u64().map(BFieldElement::new)
    }
    /// raw Montgomery word -> field element
    pub fn bfe_raw(&self) -> Option<BFieldElement> {
        self.u64().map(BFieldElement::from_raw_u64)
    }
    pub fn xfe_raw(&self) -> Option<XFieldElement> {
        match self {
            Arg::Tup(v) if v.len() == 3 => Some(XFieldElement::new([v[0].bfe_raw()?, v[1].bfe_raw()?, v[2].bfe_raw()?])),
            _ => None,
        }
    }
    pub fn xfe(&self) -> Option<XFieldElement> {
        match self {
            Arg::Tup(v) if v.len() == 3 => Some(XFieldElement::new([v[0].bfe()?, v[1].bfe()?, v[2].bfe()?])),
            _ => None,
        }
    }
    pub fn xfes(&self) -> Option<Vec<XFieldElement>> {
        self.list()?.iter().map(|a| a.xfe()).collect()
    }
    pub fn digest(&self) -> Option<Digest> {
        let v = self.bfes()?;
        Some(Digest::new(v.try_into().ok()?))
    }
    pub fn digests(&self) -> Option<Vec<Digest>> {
        self.list()?.iter().map(|a| a.digest()).collect()
    }
}

/// result of running one op on the implementation
pub struct Out {
    pub reply: String,
    pub oracle_fail: Option<String>,
}
impl Out {
    pub fn ok(s: impl Into<String>) -> Out {
        Out { reply: s.into(), oracle_fail: None }
    }
    pub fn with_oracle(mut self, ok: bool, what: impl Into<String>) -> Out {
        if !ok && self.oracle_fail.is_none() {
            self.oracle_fail = Some(what.into());
        }
        self
    }
}

// ---- added for C14 (derive macro corpus): both `bfieldcodec_derive` versions expand to paths starting with
// `crate::twenty_first::…`; `main.rs` glob-imports this module, which puts the name into the crate root.
pub use ::twenty_first;

// ---- added for the large-count MMR ops of C12 / C05 / C11 ------------------------------------------------------
// (a) `fmt_arg`: re-serialise a parsed argument (to hand an op line on to a child process);
// (b) `run_guarded`: run ONE op line in a child `tfh run` under a watchdog (wall-clock timeout, address-space and
//     CPU-time limits set with setrlimit between fork and exec).  A mutated implementation that loops forever or
//     allocates without bound is thereby reported as `timeout` / `abort` instead of hanging the whole check.
//     After `GUARD_MAX_TRIPS` trips within one process the remaining guarded ops are not started any more
//     (`Guarded::Tripped`), so that a run on a broken tree ends within a bounded time.
pub fn fmt_arg(a: &Arg) -> String {
    match a {
        Arg::Nat(n) => n.to_string(),
        Arg::Neg(n) => format!("-{}", n),
        Arg::Sym(s) => s.clone(),
        Arg::List(v) => format!("[{}]", v.iter().map(fmt_arg).collect::<Vec<_>>().join(",")),
        Arg::Tup(v) => format!("({})", v.iter().map(fmt_arg).collect::<Vec<_>>().join(";")),
    }
}
pub fn fmt_line(fam: &str, op: &str, args: &[Arg]) -> String {
    let mut s = format!("{} {}", fam, op);
    for a in args {
        s.push(' ');
        s.push_str(&fmt_arg(a));
    }
    s
}

pub const GUARD_ENV: &str = "TFH_GUARDED_CHILD";
pub const GUARD_MAX_TRIPS: u32 = 3;
pub const GUARD_TIMEOUT_MS: u64 = 10_000;
pub const GUARD_AS_BYTES: u64 = 3 << 30;
static GUARD_TRIPS: std::sync::atomic::AtomicU32 = std::sync::atomic::AtomicU32::new(0);
static GUARD_SEQ: std::sync::atomic::AtomicU32 = std::sync::atomic::AtomicU32::new(0);

/// true in the child started by `run_guarded` (the op is then evaluated in-process)
pub fn in_guarded_child() -> bool {
    std::env::var_os(GUARD_ENV).is_some()
}

pub enum Guarded {
    /// first reply line of the child (with its `\tORACLE-FAIL:` part, if any) and the child's class counters
    Reply(String, BTreeMap<String, u64>),
    /// no reply within the wall-clock limit; the child was killed
    Timeout(u64),
    /// the child died without a reply (signal / allocation failure under the address-space limit / exit code)
    Abort(String),
    /// not started: the watchdog already tripped `GUARD_MAX_TRIPS` times in this process
    Tripped,
    /// the child could not be started at all (harness problem, not an observation about the implementation)
    SpawnError(String),
}

#[repr(C)]
struct RLimit64 {
    cur: u64,
    max: u64,
}
extern "C" {
    fn setrlimit(resource: i32, rlim: *const RLimit64) -> i32;
}
const RLIMIT_CPU: i32 = 0;
const RLIMIT_AS: i32 = 9;

pub fn run_guarded(line: &str) -> Guarded {
    use std::io::{Read, Write};
    use std::os::unix::process::{CommandExt, ExitStatusExt};
    use std::process::{Command, Stdio};
    use std::sync::atomic::Ordering;
    if GUARD_TRIPS.load(Ordering::SeqCst) >= GUARD_MAX_TRIPS {
        return Guarded::Tripped;
    }
    let timeout_ms: u64 = std::env::var("TFH_GUARD_TIMEOUT_MS").ok().and_then(|s| s.parse().ok()).unwrap_or(GUARD_TIMEOUT_MS);
    let exe = match std::env::current_exe() {
        Ok(e) => e,
        Err(e) => return Guarded::SpawnError(e.to_string()),
    };
    let stats_path = std::env::temp_dir().join(format!("tfh-guard-{}-{}.json", std::process::id(), GUARD_SEQ.fetch_add(1, Ordering::SeqCst)));
    let mut cmd = Command::new(exe);
    cmd.arg("run").arg("--stats").arg(&stats_path).env(GUARD_ENV, "1").stdin(Stdio::piped()).stdout(Stdio::piped()).stderr(Stdio::null());
    let cpu_s = timeout_ms / 1000 + 2;
    // SAFETY: only the async-signal-safe `setrlimit` is called between fork and exec
    unsafe {
        cmd.pre_exec(move || {
            let a = RLimit64 { cur: GUARD_AS_BYTES, max: GUARD_AS_BYTES };
            let c = RLimit64 { cur: cpu_s, max: cpu_s + 1 };
            if setrlimit(RLIMIT_AS, &a) != 0 || setrlimit(RLIMIT_CPU, &c) != 0 {
                return Err(std::io::Error::last_os_error());
            }
            Ok(())
        });
    }
    let mut child = match cmd.spawn() {
        Ok(c) => c,
        Err(e) => return Guarded::SpawnError(e.to_string()),
    };
    if let Some(mut stdin) = child.stdin.take() {
        let _ = stdin.write_all(line.as_bytes());
        let _ = stdin.write_all(b"\n");
    }
    let mut stdout = child.stdout.take().unwrap();
    let reader = std::thread::spawn(move || {
        let mut s = String::new();
        let _ = stdout.read_to_string(&mut s);
        s
    });
    let t0 = std::time::Instant::now();
    let mut sleep_us = 200u64;
    let status = loop {
        match child.try_wait() {
            Ok(Some(s)) => break Some(s),
            Ok(None) => {
                if t0.elapsed().as_millis() as u64 > timeout_ms {
                    let _ = child.kill();
                    let _ = child.wait();
                    break None;
                }
                std::thread::sleep(std::time::Duration::from_micros(sleep_us));
                sleep_us = (sleep_us * 2).min(20_000);
            }
            Err(e) => return Guarded::SpawnError(e.to_string()),
        }
    };
    let text = reader.join().unwrap_or_default();
    let counters: BTreeMap<String, u64> = std::fs::read_to_string(&stats_path).ok().and_then(|s| serde_json::from_str(&s).ok()).unwrap_or_default();
    let _ = std::fs::remove_file(&stats_path);
    let first = text.lines().next().unwrap_or("").to_string();
    match status {
        None => {
            GUARD_TRIPS.fetch_add(1, Ordering::SeqCst);
            Guarded::Timeout(timeout_ms)
        }
        Some(s) if s.success() && !first.is_empty() => Guarded::Reply(first, counters),
        Some(s) => {
            GUARD_TRIPS.fetch_add(1, Ordering::SeqCst);
            Guarded::Abort(match s.signal() {
                Some(sig) => format!("killed by signal {}", sig),
                None => format!("exit status {:?}, no reply", s.code()),
            })
        }
    }
}

/// the standard use: evaluate the op in a watchdog child; a reply is passed through (class counters merged),
/// anything else becomes an ORACLE-FAIL "does not terminate" on this op line
pub fn guarded_out(fam: &str, op: &str, args: &[Arg], st: &mut Stats, what: &str) -> Out {
    match run_guarded(&fmt_line(fam, op, args)) {
        Guarded::Reply(r, counters) => {
            for (k, v) in counters {
                if !k.starts_with("op:") {
                    *st.counters.entry(k).or_insert(0) += v;
                }
            }
            match r.split_once("\tORACLE-FAIL:") {
                Some((reply, o)) => Out::ok(reply).with_oracle(false, o),
                None => Out::ok(r),
            }
        }
        Guarded::Timeout(ms) => {
            st.hit("watchdog:TIMEOUT");
            Out::ok("timeout").with_oracle(false, format!("does not terminate: {} gave no result within {} ms in a watchdog child process", what, ms))
        }
        Guarded::Abort(why) => {
            st.hit("watchdog:ABORT");
            Out::ok("abort").with_oracle(false, format!("does not terminate: {} exhausted the {} MiB address-space / CPU-time limit of the watchdog child process ({})", what, GUARD_AS_BYTES >> 20, why))
        }
        Guarded::Tripped => {
            st.hit("watchdog:NOT-RUN");
            Out::ok("not-run").with_oracle(false, format!("not evaluated: the watchdog already stopped {} earlier ops of this run ({})", GUARD_MAX_TRIPS, what))
        }
        Guarded::SpawnError(e) => Out::ok(format!("child-error:{}", e)).with_oracle(false, "could not run the watchdog child process"),
    }
}
