// PROP: C11  FAMILIES: mmra=run_mmra
//! C11 -- the MMR accumulator commits to the current leaf list.
//!
//! Family `mmra`: a whole history is one op line (format in `lean/TF/Drv/MmrAcc.lean`).
//! The generator keeps the leaf list and builds every membership proof **from scratch** out of perfect Merkle trees
//! over the maximal aligned blocks of the leaf list (`MerkleTree::new::<CpuParallel>`), never through the MMR code.
//! Oracles on the implementation (independent of the Lean model), evaluated after every step while all supplied
//! proofs were valid:  peaks == from-scratch peaks of the mirrored leaf list, leaf count == its length,
//! bag == documented fold, updated proofs == from-scratch proofs, `verify_batch_update` == (stated peaks are the
//! from-scratch peaks after the stated mutations and appends), duplicates / out-of-range indices rejected.
//!
//! `mmra bhist (init;count;[peaks]) (known;[(index;leaf;[path]),…]) <step> …` -- the same history format on an accumulator
//! with a LARGE structured leaf count (2^k-1, 2^k-j, runs of ones up to bit 62: appends carry through high bits).
//! The harness rebuilds a sparse from-scratch forest (`c12::sparse::Sparse`) from the op line alone (peaks + the
//! materialised leafs with their paths) and evaluates the same oracles against it; evaluated in a watchdog child.
use super::c12::sparse::{pick_tracked, Sparse};
use crate::util::*;
use twenty_first::prelude::*;
use twenty_first::util_types::merkle_tree::CpuParallel;
use twenty_first::util_types::mmr::mmr_accumulator::MmrAccumulator;
use twenty_first::util_types::mmr::mmr_membership_proof::MmrMembershipProof;
use twenty_first::util_types::mmr::mmr_trait::{LeafMutation, Mmr};

// ------------------------------------------------------------------------------------------- from scratch
/// (start, height) of the maximal aligned blocks of a list of `n` leaves, highest first
fn blocks(n: usize) -> Vec<(usize, u32)> {
    let mut v = vec![];
    let mut start = 0;
    for h in (0..usize::BITS).rev() {
        if n >> h & 1 == 1 {
            v.push((start, h));
            start += 1 << h;
        }
    }
    v
}
fn block_tree(leafs: &[Digest], start: usize, h: u32) -> MerkleTree {
    MerkleTree::new::<CpuParallel>(&leafs[start..start + (1 << h)]).unwrap()
}
fn peaks_from_scratch(leafs: &[Digest]) -> Vec<Digest> {
    blocks(leafs.len()).into_iter().map(|(s, h)| block_tree(leafs, s, h).root()).collect()
}
/// authentication path of leaf `i`, lowest sibling first
fn path_from_scratch(leafs: &[Digest], i: usize) -> Vec<Digest> {
    for (s, h) in blocks(leafs.len()) {
        if i < s + (1 << h) {
            let t = block_tree(leafs, s, h);
            let mut x = (1usize << h) + (i - s);
            let mut ap = vec![];
            while x > 1 {
                ap.push(t.node(x ^ 1).unwrap());
                x >>= 1;
            }
            return ap;
        }
    }
    panic!("leaf index out of range in the generator");
}
/// the documented bagging: nothing -> hash of the encoding of a 128-bit zero; one peak -> itself;
/// otherwise H(p0, H(p1, ... H(p_{k-2}, p_{k-1})))
fn bag_from_scratch(peaks: &[Digest]) -> Digest {
    match peaks.len() {
        0 => Tip5::hash_varlen(&[BFieldElement::new(0); 4]),
        1 => peaks[0],
        k => {
            let mut acc = Tip5::hash_pair(peaks[k - 2], peaks[k - 1]);
            for p in peaks[..k - 2].iter().rev() {
                acc = Tip5::hash_pair(*p, acc);
            }
            acc
        }
    }
}

// ------------------------------------------------------------------------------------------- formatting
fn fmt_mut(i: u64, leaf: &Digest, ap: &[Digest]) -> String {
    format!("({};{};{})", i, fmt_digest(leaf), fmt_digests(ap))
}
fn fmt_muts(ms: &[(u64, Digest, Vec<Digest>)]) -> String {
    let v: Vec<String> = ms.iter().map(|(i, l, ap)| fmt_mut(*i, l, ap)).collect();
    format!("[{}]", v.join(","))
}
fn fmt_paths(ps: &[Vec<Digest>]) -> String {
    let v: Vec<String> = ps.iter().map(|p| fmt_digests(p)).collect();
    format!("[{}]", v.join(","))
}
fn fmt_state(a: &MmrAccumulator) -> String {
    format!("({};{};{};{})", a.num_leafs(), fmt_digests(&a.peaks()), fmt_digest(&a.bag_peaks()), a.is_empty())
}

// ------------------------------------------------------------------------------------------- generator
fn corrupt(rng: &mut Rng, ap: &mut Vec<Digest>) -> &'static str {
    match rng.below(4) {
        0 if !ap.is_empty() => {
            let k = rng.below(ap.len() as u64) as usize;
            ap[k] = rng.digest_u();
            "replaced"
        }
        1 if !ap.is_empty() => {
            ap.pop();
            "truncated"
        }
        2 => {
            ap.push(rng.digest_u());
            "extended"
        }
        _ => {
            if ap.len() >= 2 {
                ap.swap(0, 1);
                "swapped"
            } else {
                ap.push(rng.digest());
                "extended"
            }
        }
    }
}

/// picks indices that stress shared digests: siblings, cousins, first/last leaf of a tree
fn pick_indices(rng: &mut Rng, n: usize, k: usize) -> Vec<u64> {
    let mut v: Vec<u64> = vec![];
    let mut tries = 0;
    while v.len() < k && tries < 200 {
        tries += 1;
        let base = if v.is_empty() || rng.coin(1, 3) { rng.below(n as u64) } else { *rng.pick(&v) };
        let c = match rng.below(6) {
            0 => base ^ 1,
            1 => base ^ 2,
            2 => base ^ 3,
            3 => base ^ (1 << rng.below(8)),
            4 => *rng.pick(&[0u64, n as u64 - 1, (n as u64 - 1) & !1, (n as u64) & (n as u64 - 1)]),
            _ => base,
        };
        if (c as usize) < n && !v.contains(&c) {
            v.push(c);
        }
    }
    v
}

fn gen_history(rng: &mut Rng, out: &mut Vec<String>, target_len: usize, start_leafs: usize, malformed: bool) {
    let mut leafs: Vec<Digest> = (0..start_leafs).map(|_| rng.digest_u()).collect();
    let mut line = String::from("mmra hist ");
    if start_leafs == 0 && rng.coin(1, 2) {
        line.push_str("new");
    } else if rng.coin(1, 6) && start_leafs > 0 {
        // a consistent `init`
        line.push_str(&format!("(init;{};{})", start_leafs, fmt_digests(&peaks_from_scratch(&leafs))));
    } else {
        line.push_str(&format!("(from;{})", fmt_digests(&leafs)));
    }
    let mut broken = false; // after a malformed step the generator's mirror is no longer the accumulator's content
    for _ in 0..target_len {
        let n = leafs.len();
        let choice = if n == 0 { 0 } else { rng.below(20) };
        match choice {
            0..=7 => {
                // append (possibly a run of appends that crosses 2^k-1 -> 2^k)
                let run = if rng.coin(1, 6) { rng.range(1, 9) } else { 1 };
                for _ in 0..run {
                    let d = if rng.coin(1, 8) { rng.digest() } else { rng.digest_u() };
                    line.push_str(&format!(" (a;{})", fmt_digest(&d)));
                    leafs.push(d);
                }
            }
            8..=12 => {
                // single mutation; often two sibling leaves one after the other
                let i = *pick_indices(rng, n, 1).first().unwrap() as usize;
                let targets = if rng.coin(1, 3) && (i ^ 1) < n { vec![i, i ^ 1] } else { vec![i] };
                for i in targets {
                    let d = rng.digest_u();
                    let mut ap = path_from_scratch(&leafs, i);
                    let mut idx = i as u64;
                    if malformed && rng.coin(1, 4) {
                        if rng.coin(1, 3) {
                            idx = n as u64 + rng.below(3); // out of range: assert fails
                        } else {
                            corrupt(rng, &mut ap);
                            broken = true;
                        }
                    }
                    line.push_str(&format!(" (m;{};{};{})", idx, fmt_digest(&d), fmt_digests(&ap)));
                    if idx == i as u64 {
                        leafs[i] = d;
                    }
                }
            }
            13..=16 => {
                // batch mutation with tracked proofs
                let k = rng.range(0, 5.min(n as u64)) as usize;
                let idxs = pick_indices(rng, n, k);
                let mut muts: Vec<(u64, Digest, Vec<Digest>)> =
                    idxs.iter().map(|&i| (i, rng.digest_u(), path_from_scratch(&leafs, i as usize))).collect();
                let tk = rng.range(0, 4.min(n as u64)) as usize;
                let mut tracked = pick_indices(rng, n, tk);
                if rng.coin(1, 2) && !idxs.is_empty() {
                    // track a mutated leaf itself and a sibling of one
                    for c in [idxs[0], idxs[0] ^ 1] {
                        if (c as usize) < n && !tracked.contains(&c) {
                            tracked.push(c);
                        }
                    }
                }
                let mut tps: Vec<Vec<Digest>> = tracked.iter().map(|&i| path_from_scratch(&leafs, i as usize)).collect();
                let mut valid = true;
                if malformed && rng.coin(1, 3) {
                    valid = false;
                    match rng.below(5) {
                        0 if !muts.is_empty() => {
                            let m = muts[0].clone();
                            muts.push((m.0, rng.digest_u(), m.2)); // duplicate index: assert fails
                        }
                        1 if !muts.is_empty() => muts[0].0 = n as u64 + rng.below(2), // out of range
                        2 => tracked.push(n as u64),                                   // tracked index out of range
                        3 => {
                            tps.push(vec![]); // lengths differ
                        }
                        _ => {
                            if let Some(m) = muts.first_mut() {
                                corrupt(rng, &mut m.2);
                                broken = true;
                            }
                        }
                    }
                }
                line.push_str(&format!(" (b;{};{};{})", fmt_paths(&tps), fmt_list_u64(&tracked), fmt_muts(&muts)));
                if valid {
                    for (i, d, _) in &muts {
                        leafs[*i as usize] = *d;
                    }
                }
            }
            _ => {
                // verify_batch_update: valid, wrong peaks, duplicates, out of range, with and without appends
                let k = rng.range(0, 4.min(n as u64)) as usize;
                let idxs = pick_indices(rng, n, k);
                let mut muts: Vec<(u64, Digest, Vec<Digest>)> =
                    idxs.iter().map(|&i| (i, rng.digest_u(), path_from_scratch(&leafs, i as usize))).collect();
                let apps: Vec<Digest> = (0..rng.below(4)).map(|_| rng.digest_u()).collect();
                let mut after = leafs.clone();
                for (i, d, _) in &muts {
                    after[*i as usize] = *d;
                }
                after.extend(apps.iter().copied());
                let mut np = peaks_from_scratch(&after);
                match rng.below(8) {
                    0 => {
                        if let Some(p) = np.first_mut() {
                            *p = rng.digest_u();
                        }
                    }
                    1 if !muts.is_empty() => {
                        let m = muts[rng.below(muts.len() as u64) as usize].clone();
                        muts.push(m); // duplicate
                    }
                    2 if !muts.is_empty() => muts[0].0 = n as u64 + rng.below(2), // out of range
                    3 => {
                        np.pop();
                    }
                    4 => np = peaks_from_scratch(&leafs), // old peaks
                    5 if muts.len() >= 2 => muts.reverse(), // order must not matter
                    _ => {}
                }
                line.push_str(&format!(" (v;{};{};{})", fmt_digests(&np), fmt_digests(&apps), fmt_muts(&muts)));
            }
        }
        if broken && rng.coin(1, 2) {
            break;
        }
    }
    out.push(line);
}

/// a history on `init(peaks, LARGE count)`: the generator's sparse forest supplies peaks and valid proofs
fn gen_big_history(rng: &mut Rng, out: &mut Vec<String>, target_len: usize, heavy: bool) {
    let (mut n0, mut m0) = super::c12::carry_pair(rng);
    if !heavy {
        // fewer peaks (every state record bags all peaks in the model)
        let mut tries = 0;
        while n0.count_ones() > 34 && tries < 50 {
            (n0, m0) = super::c12::carry_pair(rng);
            tries += 1;
        }
    }
    let n0 = n0.max(1);
    let k = rng.range(1, 4) as usize;
    let idxs: Vec<(u64, Digest)> = pick_tracked(rng, n0, k).into_iter().map(|i| (i, rng.digest_u())).collect();
    let mut sp = Sparse::random(rng.next(), n0, &idxs);
    let peaks = sp.peaks();
    let known: Vec<(u64, Digest, Vec<Digest>)> = idxs.iter().map(|(i, d)| (*i, *d, sp.path(*i))).collect();
    let mut line = format!("mmra bhist (init;{};{}) (known;{})", n0, fmt_digests(&peaks), fmt_muts(&known));
    for step in 0..target_len {
        let mat: Vec<u64> = sp.leafs.keys().copied().collect();
        let choice = if step == 0 { 0 } else { rng.below(10) };
        match choice {
            0..=3 => {
                // a run of appends: to the next carry and one beyond
                // the property's domain is < 2^63 leafs (node indices fit u64): never append beyond 2^63 - 1
                let room = ((1u64 << 63) - 1).saturating_sub(sp.n);
                let run = (if step == 0 { (m0 as u64).clamp(1, 6) } else { rng.range(1, 3) }).min(room);
                for _ in 0..run {
                    let d = rng.digest_u();
                    line.push_str(&format!(" (a;{})", fmt_digest(&d)));
                    sp.append(d);
                }
            }
            4 | 5 => {
                let i = *rng.pick(&mat);
                let d = rng.digest_u();
                let mut ap = sp.path(i);
                let mut bad = false;
                if rng.coin(1, 8) {
                    corrupt(rng, &mut ap);
                    bad = true;
                }
                line.push_str(&format!(" (m;{};{};{})", i, fmt_digest(&d), fmt_digests(&ap)));
                if bad {
                    break;
                }
                sp.leafs.insert(i, d);
            }
            6 | 7 => {
                let mut mi: Vec<u64> = mat.iter().copied().filter(|_| rng.coin(1, 2)).collect();
                if mi.is_empty() {
                    mi.push(*rng.pick(&mat));
                }
                mi.truncate(4);
                let muts: Vec<(u64, Digest, Vec<Digest>)> = mi.iter().map(|&i| (i, rng.digest_u(), sp.path(i))).collect();
                let tracked: Vec<u64> = mat.iter().copied().filter(|_| rng.coin(2, 3)).take(4).collect();
                let tps: Vec<Vec<Digest>> = tracked.iter().map(|&i| sp.path(i)).collect();
                line.push_str(&format!(" (b;{};{};{})", fmt_paths(&tps), fmt_list_u64(&tracked), fmt_muts(&muts)));
                for (i, d, _) in &muts {
                    sp.leafs.insert(*i, *d);
                }
            }
            _ => {
                let mi: Vec<u64> = mat.iter().copied().filter(|_| rng.coin(1, 2)).take(3).collect();
                let mut muts: Vec<(u64, Digest, Vec<Digest>)> = mi.iter().map(|&i| (i, rng.digest_u(), sp.path(i))).collect();
                let room = ((1u64 << 63) - 1).saturating_sub(sp.n);
                let apps: Vec<Digest> = (0..rng.below(4).min(room)).map(|_| rng.digest_u()).collect();
                // the peaks after the stated mutations and appends, from a copy of the sparse forest
                let mut after = Sparse { n: sp.n, leafs: sp.leafs.clone(), opaque: sp.opaque.clone(), rnd: sp.rnd, missing: 0 };
                for (i, d, _) in &muts {
                    after.leafs.insert(*i, *d);
                }
                for d in &apps {
                    after.append(*d);
                }
                let mut np = after.peaks();
                // opaque blocks created while evaluating `after` stay valid for `sp`
                sp.opaque = after.opaque;
                sp.rnd = after.rnd;
                match rng.below(8) {
                    0 => {
                        if let Some(p) = np.last_mut() {
                            *p = rng.digest_u();
                        }
                    }
                    1 if !muts.is_empty() => {
                        let m = muts[0].clone();
                        muts.push(m);
                    }
                    2 if !muts.is_empty() => muts[0].0 = sp.n + rng.below(2),
                    3 => np = sp.peaks(),
                    4 if muts.len() >= 2 => muts.reverse(),
                    _ => {}
                }
                line.push_str(&format!(" (v;{};{};{})", fmt_digests(&np), fmt_digests(&apps), fmt_muts(&muts)));
            }
        }
    }
    out.push(line);
}

pub fn gen(rng: &mut Rng, thorough: bool, out: &mut Vec<String>) {
    // bag_peaks alone for 0..=5 peaks
    for k in 0..=5 {
        let ps: Vec<Digest> = (0..k).map(|_| rng.digest()).collect();
        out.push(format!("mmra bag {}", fmt_digests(&ps)));
    }
    // append-only from empty across many carry chains
    let mut line = String::from("mmra hist new");
    for _ in 0..(if thorough { 1100 } else { 140 }) {
        line.push_str(&format!(" (a;{})", fmt_digest(&rng.digest_u())));
    }
    out.push(line);
    // histories starting around 2^k - 1 / 2^k / 2^k + 1
    let kmax = if thorough { 11 } else { 8 };
    for k in 0..=kmax {
        for d in [-1i64, 0, 1] {
            let s = (1i64 << k) + d;
            if s < 0 {
                continue;
            }
            gen_history(rng, out, if thorough { 40 } else { 12 }, s as usize, false);
        }
    }
    // general histories, valid proofs only
    for _ in 0..(if thorough { 150 } else { 10 }) {
        let start = if rng.coin(1, 3) { 0 } else { rng.below(if thorough { 700 } else { 90 }) as usize };
        let len = rng.range(5, if thorough { 200 } else { 45 }) as usize;
        gen_history(rng, out, len, start, false);
    }
    // malformed stream
    for _ in 0..(if thorough { 150 } else { 12 }) {
        let len = rng.range(3, 25) as usize;
        let start = rng.below(40) as usize;
        gen_history(rng, out, len, start, true);
    }
    // inconsistent `init`: too few / too many peaks, then appends and a mutation
    for (count, npeaks) in [(3u64, 0usize), (3, 1), (7, 2), (4, 0), (4, 3), (0, 2), (1, 0), (6, 5)] {
        let ps: Vec<Digest> = (0..npeaks).map(|_| rng.digest_u()).collect();
        let mut line = format!("mmra hist (init;{};{})", count, fmt_digests(&ps));
        for _ in 0..3 {
            line.push_str(&format!(" (a;{})", fmt_digest(&rng.digest_u())));
        }
        line.push_str(&format!(" (m;0;{};[])", fmt_digest(&rng.digest_u())));
        line.push_str(&format!(" (v;{};[];[])", fmt_digests(&ps)));
        out.push(line);
    }
    // LARGE structured counts with materialised leafs: append across high carries, mutate, batch mutate, verify
    for i in 0..(if thorough { 400 } else { 12 }) {
        let len = if thorough { rng.range(3, 14) as usize } else { rng.range(3, 6) as usize };
        gen_big_history(rng, out, len, thorough || i % 3 == 0);
    }
    // a large consistent accumulator close to 2^63 leafs: append / verify without knowing the leaves
    for count in [(1u64 << 63) - 2, (1 << 62) - 1, (1 << 40) + 1, u64::MAX >> 2] {
        let ps: Vec<Digest> = (0..count.count_ones()).map(|_| rng.digest_u()).collect();
        let mut line = format!("mmra hist (init;{};{})", count, fmt_digests(&ps));
        line.push_str(&format!(" (a;{})", fmt_digest(&rng.digest_u())));
        line.push_str(&format!(" (v;{};[{}];[])", fmt_digests(&ps), fmt_digest(&rng.digest_u())));
        out.push(line);
    }
}

// ------------------------------------------------------------------------------------------- runner
fn parse_mut(a: &Arg) -> Option<(u64, Digest, Vec<Digest>)> {
    match a {
        Arg::Tup(v) if v.len() == 3 => Some((v[0].u64()?, v[1].digest()?, v[2].digests()?)),
        _ => None,
    }
}
fn parse_muts(a: &Arg) -> Option<Vec<(u64, Digest, Vec<Digest>)>> {
    a.list()?.iter().map(parse_mut).collect()
}
fn to_lm(m: &(u64, Digest, Vec<Digest>)) -> LeafMutation {
    LeafMutation::new(m.0, m.1, MmrMembershipProof::new(m.2.clone()))
}
fn all_distinct(v: &[u64]) -> bool {
    let mut s = v.to_vec();
    s.sort();
    s.dedup();
    s.len() == v.len()
}

struct Mirror {
    leafs: Option<Vec<Digest>>, // None: the content of the accumulator is unknown / no longer tied to a leaf list
}
impl Mirror {
    fn check(&self, acc: &MmrAccumulator, fails: &mut Vec<String>, what: &str) {
        let peaks = acc.peaks();
        if bag_from_scratch(&peaks) != acc.bag_peaks() {
            fails.push(format!("{what}: bag_peaks is not the documented fold"));
        }
        if acc.is_empty() != (acc.num_leafs() == 0) {
            fails.push(format!("{what}: is_empty"));
        }
        if let Some(l) = &self.leafs {
            if acc.num_leafs() != l.len() as u64 {
                fails.push(format!("{what}: leaf count {} != {}", acc.num_leafs(), l.len()));
            }
            if peaks != peaks_from_scratch(l) {
                fails.push(format!("{what}: peaks differ from the perfect trees over the current leaf list"));
            }
        }
    }
}

pub fn run_mmra(op: &str, a: &[Arg], st: &mut Stats) -> Option<Out> {
    match (op, a) {
        ("bag", [ps]) => {
            let ps = ps.digests()?;
            st.hit(&format!("bag:peaks={}", ps.len().min(3)));
            let r = twenty_first::util_types::shared::bag_peaks(&ps);
            return Some(Out::ok(format!("ok:{}", fmt_digest(&r))).with_oracle(r == bag_from_scratch(&ps), "bag_peaks is not the documented fold"));
        }
        ("hist", [_, ..]) => {}
        ("bhist", [_, _, ..]) if !in_guarded_child() => {
            if let Arg::Tup(v) = &a[0] {
                if let Some(c) = v.get(1).and_then(|x| x.u64()) {
                    st.hit(&format!("bhist:start count bits={} peaks={}", match 64 - c.leading_zeros() { 0..=16 => "0-16", 17..=31 => "17-31", 32..=33 => "32-33", 34..=48 => "34-48", _ => "49-63" }, match c.count_ones() { 0..=8 => "0-8", 9..=24 => "9-24", _ => "25-63" }));
                }
            }
            return Some(guarded_out("mmra", op, a, st, "a history on MmrAccumulator::init(peaks, large count)"));
        }
        ("bhist", [_, _, ..]) => return run_bhist(a, st),
        _ => return None,
    }
    let mut fails: Vec<String> = vec![];
    let mut mirror = Mirror { leafs: None };
    let mut acc = match &a[0] {
        Arg::Sym(s) if s == "new" => {
            mirror.leafs = Some(vec![]);
            st.hit("start:new");
            MmrAccumulator::new_from_leafs(vec![])
        }
        Arg::Tup(v) if v.len() == 2 && v[0].sym() == Some("from") => {
            let l = v[1].digests()?;
            st.hit("start:from");
            mirror.leafs = Some(l.clone());
            MmrAccumulator::new_from_leafs(l)
        }
        Arg::Tup(v) if v.len() == 3 && v[0].sym() == Some("init") => {
            let c = v[1].u64()?;
            let ps = v[2].digests()?;
            st.hit(if ps.len() as u32 == c.count_ones() { "start:init-consistent-shape" } else { "start:init-inconsistent" });
            MmrAccumulator::init(ps, c)
        }
        _ => return None,
    };
    mirror.check(&acc, &mut fails, "start");
    let mut out = vec![fmt_state(&acc)];
    for (k, s) in a[1..].iter().enumerate() {
        let Arg::Tup(v) = s else { return None };
        let kind = v.first()?.sym()?;
        let before = acc.clone();
        let what = format!("step {} ({})", k, kind);
        match (kind, v.len()) {
            ("a", 2) => {
                let d = v[1].digest()?;
                let n_before = acc.num_leafs();
                st.hit(&format!("append:carries={}", (n_before.trailing_ones()).min(9)));
                let r = std::panic::catch_unwind(std::panic::AssertUnwindSafe(|| {
                    let mut a2 = acc.clone();
                    let mp = a2.append(d);
                    (a2, mp)
                }));
                match r {
                    Ok((a2, mp)) => {
                        acc = a2;
                        if let Some(l) = &mut mirror.leafs {
                            l.push(d);
                            if mp.authentication_path != path_from_scratch(l, l.len() - 1) {
                                fails.push(format!("{what}: returned membership proof is not the from-scratch path"));
                            }
                        }
                        out.push(format!("{}{}", fmt_state(&acc), fmt_digests(&mp.authentication_path)));
                        mirror.check(&acc, &mut fails, &what);
                    }
                    Err(_) => {
                        st.hit("append:panic");
                        acc = before;
                        out.push("panic".into());
                    }
                }
            }
            ("m", 4) => {
                let (i, d, ap) = (v[1].u64()?, v[2].digest()?, v[3].digests()?);
                let valid = match &mirror.leafs {
                    Some(l) => (i as usize) < l.len() && ap == path_from_scratch(l, i as usize),
                    None => false,
                };
                st.hit(if valid { "mutate:valid-proof" } else { "mutate:invalid-or-unknown" });
                let r = std::panic::catch_unwind(std::panic::AssertUnwindSafe(|| {
                    let mut a2 = acc.clone();
                    a2.mutate_leaf(LeafMutation::new(i, d, MmrMembershipProof::new(ap.clone())));
                    a2
                }));
                match r {
                    Ok(a2) => {
                        acc = a2;
                        if valid {
                            mirror.leafs.as_mut().unwrap()[i as usize] = d;
                        } else {
                            mirror.leafs = None;
                        }
                        out.push(fmt_state(&acc));
                        mirror.check(&acc, &mut fails, &what);
                    }
                    Err(_) => {
                        st.hit("mutate:panic");
                        if valid {
                            fails.push(format!("{what}: mutate_leaf panicked on a valid proof"));
                        }
                        acc = before;
                        out.push("panic".into());
                    }
                }
            }
            ("b", 4) => {
                let tps = v[1].list()?.iter().map(|p| p.digests()).collect::<Option<Vec<_>>>()?;
                let tidx = v[2].u64s()?;
                let muts = parse_muts(&v[3])?;
                let midx: Vec<u64> = muts.iter().map(|m| m.0).collect();
                let valid = match &mirror.leafs {
                    Some(l) => {
                        tps.len() == tidx.len()
                            && all_distinct(&midx)
                            && midx.iter().all(|i| (*i as usize) < l.len())
                            && tidx.iter().all(|i| (*i as usize) < l.len())
                            && muts.iter().all(|m| m.2 == path_from_scratch(l, m.0 as usize))
                            && tps.iter().zip(&tidx).all(|(p, i)| *p == path_from_scratch(l, *i as usize))
                    }
                    None => false,
                };
                st.hit(&format!("batch:valid={} muts={} tracked={}", valid, muts.len().min(4), tidx.len().min(4)));
                if midx.iter().any(|i| midx.contains(&(i ^ 1)) && i & 1 == 0) {
                    st.hit("batch:sibling-leaves-mutated");
                }
                let r = std::panic::catch_unwind(std::panic::AssertUnwindSafe(|| {
                    let mut a2 = acc.clone();
                    let mut mps: Vec<MmrMembershipProof> = tps.iter().map(|p| MmrMembershipProof::new(p.clone())).collect();
                    let mods = {
                        let mut refs: Vec<&mut MmrMembershipProof> = mps.iter_mut().collect();
                        a2.batch_mutate_leaf_and_update_mps(&mut refs, &tidx, muts.iter().map(to_lm).collect())
                    };
                    (a2, mps, mods)
                }));
                match r {
                    Ok((a2, mps, mods)) => {
                        acc = a2;
                        if valid {
                            let l = mirror.leafs.as_mut().unwrap();
                            let old: Vec<Vec<Digest>> = tidx.iter().map(|i| path_from_scratch(l, *i as usize)).collect();
                            for m in &muts {
                                l[m.0 as usize] = m.1;
                            }
                            for (j, (mp, i)) in mps.iter().zip(&tidx).enumerate() {
                                let want = path_from_scratch(l, *i as usize);
                                if mp.authentication_path != want {
                                    fails.push(format!("{what}: updated proof {j} is not the from-scratch path"));
                                }
                                if (want != old[j]) != mods.contains(&j) {
                                    fails.push(format!("{what}: modified-index list wrong for proof {j}"));
                                }
                            }
                        } else {
                            mirror.leafs = None;
                        }
                        let mods64: Vec<u64> = mods.iter().map(|x| *x as u64).collect();
                        let paths: Vec<Vec<Digest>> = mps.iter().map(|m| m.authentication_path.clone()).collect();
                        out.push(format!("{}{}{}", fmt_state(&acc), fmt_list_u64(&mods64), fmt_paths(&paths)));
                        mirror.check(&acc, &mut fails, &what);
                    }
                    Err(_) => {
                        st.hit("batch:panic");
                        if valid {
                            fails.push(format!("{what}: batch mutation panicked on valid input"));
                        }
                        acc = before;
                        out.push("panic".into());
                    }
                }
            }
            ("v", 4) => {
                let np = v[1].digests()?;
                let apps = v[2].digests()?;
                let muts = parse_muts(&v[3])?;
                let midx: Vec<u64> = muts.iter().map(|m| m.0).collect();
                let r = std::panic::catch_unwind(std::panic::AssertUnwindSafe(|| {
                    acc.verify_batch_update(&np, &apps, muts.iter().map(to_lm).collect())
                }));
                let dup = !all_distinct(&midx);
                let oob = midx.iter().any(|i| *i >= acc.num_leafs());
                match r {
                    Ok(b) => {
                        st.hit(&format!("verify:{} dup={} oob={} muts={} apps={}", b, dup, oob, muts.len().min(3), apps.len().min(2)));
                        if (dup || oob) && b {
                            fails.push(format!("{what}: verify_batch_update accepted duplicate or out-of-range indices"));
                        }
                        if let (Some(l), false, false) = (&mirror.leafs, dup, oob) {
                            if muts.iter().all(|m| m.2 == path_from_scratch(l, m.0 as usize)) {
                                let mut after = l.clone();
                                for m in &muts {
                                    after[m.0 as usize] = m.1;
                                }
                                after.extend(apps.iter().copied());
                                let want = peaks_from_scratch(&after) == np;
                                st.hit(&format!("verify:oracle-applies want={}", want));
                                if want != b {
                                    fails.push(format!("{what}: verify_batch_update returned {b}, from-scratch peaks say {want}"));
                                }
                            }
                        }
                        out.push(format!("v:{}", b));
                    }
                    Err(_) => {
                        st.hit("verify:panic");
                        out.push("panic".into());
                    }
                }
            }
            _ => return None,
        }
    }
    let mut o = Out::ok(format!("ok:{}", out.join(" ")));
    if let Some(f) = fails.first() {
        o = o.with_oracle(false, f.clone());
    }
    Some(o)
}

// ------------------------------------------------------------------------------------------- runner, LARGE counts
/// the same record format as `hist`; the mirror is the sparse forest rebuilt from the op line
fn run_bhist(a: &[Arg], st: &mut Stats) -> Option<Out> {
    let (c, ps) = match &a[0] {
        Arg::Tup(v) if v.len() == 3 && v[0].sym() == Some("init") => (v[1].u64()?, v[2].digests()?),
        _ => return None,
    };
    let known = match &a[1] {
        Arg::Tup(v) if v.len() == 2 && v[0].sym() == Some("known") => parse_muts(&v[1])?,
        _ => return None,
    };
    let mut fails: Vec<String> = vec![];
    let mut sp: Option<Sparse> = Sparse::from_known(c, &ps, &known);
    st.hit(if sp.is_some() { "bhist:start consistent with the materialised leafs" } else { "bhist:start NOT consistent (oracles off)" });
    let mut acc = MmrAccumulator::init(ps, c);
    for (i, d, p) in &known {
        if sp.is_some() && !MmrMembershipProof::new(p.clone()).verify(*i, *d, &acc.peaks(), acc.num_leafs()) {
            fails.push(format!("start: the fabricated proof of leaf {i} does not verify"));
        }
    }
    let plain = Mirror { leafs: None };
    plain.check(&acc, &mut fails, "start");
    let mut out = vec![fmt_state(&acc)];
    // peaks, count and every materialised leaf's path against the sparse forest
    fn check_sp(sp: &mut Option<Sparse>, acc: &MmrAccumulator, fails: &mut Vec<String>, what: &str) {
        if sp.as_ref().map(|s| s.n >= 1 << 63).unwrap_or(false) {
            *sp = None; // outside the property's domain (< 2^63 leafs: node indices fit u64)
        }
        if let Some(s) = sp {
            if acc.num_leafs() != s.n {
                fails.push(format!("{what}: leaf count {} != {}", acc.num_leafs(), s.n));
            }
            if acc.peaks() != s.peaks() {
                fails.push(format!("{what}: peaks differ from the peaks recomputed by folding"));
            }
            if s.missing > 0 {
                *sp = None;
            }
        }
    }
    for (k, s) in a[2..].iter().enumerate() {
        let Arg::Tup(v) = s else { return None };
        let kind = v.first()?.sym()?;
        let before = acc.clone();
        let what = format!("step {} ({})", k, kind);
        match (kind, v.len()) {
            ("a", 2) => {
                let d = v[1].digest()?;
                let n_before = acc.num_leafs();
                let carry_top = 64 - (n_before ^ n_before.wrapping_add(1)).leading_zeros();
                st.hit(&format!("bhist:append carry reaches bit {}", match carry_top { 0..=16 => "0-15", 17..=31 => "16-30", 32..=33 => "31-32", 34..=48 => "33-47", _ => "48-62" }));
                let r = std::panic::catch_unwind(std::panic::AssertUnwindSafe(|| {
                    let mut a2 = acc.clone();
                    let mp = a2.append(d);
                    (a2, mp)
                }));
                match r {
                    Ok((a2, mp)) => {
                        acc = a2;
                        if let Some(s) = &mut sp {
                            s.append(d);
                            if mp.authentication_path != s.path(n_before) {
                                fails.push(format!("{what}: returned membership proof is not the path recomputed by folding"));
                            }
                        }
                        if n_before < (1 << 63) - 1 && !mp.verify(n_before, d, &acc.peaks(), acc.num_leafs()) {
                            fails.push(format!("{what}: returned membership proof does not verify"));
                        }
                        out.push(format!("{}{}", fmt_state(&acc), fmt_digests(&mp.authentication_path)));
                        plain.check(&acc, &mut fails, &what);
                        check_sp(&mut sp, &acc, &mut fails, &what);
                    }
                    Err(_) => {
                        st.hit("bhist:append panic");
                        if n_before < (1 << 63) - 1 {
                            fails.push(format!("{what}: append panicked below 2^63 leafs"));
                        }
                        acc = before;
                        out.push("panic".into());
                    }
                }
            }
            ("m", 4) => {
                let (i, d, ap) = (v[1].u64()?, v[2].digest()?, v[3].digests()?);
                let valid = match &mut sp {
                    Some(s) => s.leafs.contains_key(&i) && ap == s.path(i),
                    None => false,
                };
                st.hit(if valid { "bhist:mutate valid-proof" } else { "bhist:mutate invalid-or-unknown" });
                let r = std::panic::catch_unwind(std::panic::AssertUnwindSafe(|| {
                    let mut a2 = acc.clone();
                    a2.mutate_leaf(LeafMutation::new(i, d, MmrMembershipProof::new(ap.clone())));
                    a2
                }));
                match r {
                    Ok(a2) => {
                        acc = a2;
                        if valid {
                            sp.as_mut().unwrap().leafs.insert(i, d);
                        } else {
                            sp = None;
                        }
                        out.push(fmt_state(&acc));
                        plain.check(&acc, &mut fails, &what);
                        check_sp(&mut sp, &acc, &mut fails, &what);
                    }
                    Err(_) => {
                        if valid {
                            fails.push(format!("{what}: mutate_leaf panicked on a valid proof"));
                        }
                        acc = before;
                        out.push("panic".into());
                    }
                }
            }
            ("b", 4) => {
                let tps = v[1].list()?.iter().map(|p| p.digests()).collect::<Option<Vec<_>>>()?;
                let tidx = v[2].u64s()?;
                let muts = parse_muts(&v[3])?;
                let midx: Vec<u64> = muts.iter().map(|m| m.0).collect();
                let valid = match &mut sp {
                    Some(s) => {
                        tps.len() == tidx.len()
                            && all_distinct(&midx)
                            && midx.iter().all(|i| s.leafs.contains_key(i))
                            && tidx.iter().all(|i| s.leafs.contains_key(i))
                            && muts.iter().all(|m| m.2 == s.path(m.0))
                            && tps.iter().zip(&tidx).all(|(p, i)| *p == s.path(*i))
                    }
                    None => false,
                };
                st.hit(&format!("bhist:batch valid={} muts={} tracked={}", valid, muts.len().min(4), tidx.len().min(4)));
                let r = std::panic::catch_unwind(std::panic::AssertUnwindSafe(|| {
                    let mut a2 = acc.clone();
                    let mut mps: Vec<MmrMembershipProof> = tps.iter().map(|p| MmrMembershipProof::new(p.clone())).collect();
                    let mods = {
                        let mut refs: Vec<&mut MmrMembershipProof> = mps.iter_mut().collect();
                        a2.batch_mutate_leaf_and_update_mps(&mut refs, &tidx, muts.iter().map(to_lm).collect())
                    };
                    (a2, mps, mods)
                }));
                match r {
                    Ok((a2, mps, mods)) => {
                        acc = a2;
                        if valid {
                            let s = sp.as_mut().unwrap();
                            let old: Vec<Vec<Digest>> = tidx.iter().map(|i| s.path(*i)).collect();
                            for m in &muts {
                                s.leafs.insert(m.0, m.1);
                            }
                            for (j, (mp, i)) in mps.iter().zip(&tidx).enumerate() {
                                let want = s.path(*i);
                                if mp.authentication_path != want {
                                    fails.push(format!("{what}: updated proof {j} is not the path recomputed by folding"));
                                }
                                if !mp.verify(*i, s.leafs[i], &acc.peaks(), acc.num_leafs()) {
                                    fails.push(format!("{what}: updated proof {j} does not verify against the new accumulator"));
                                }
                                if (want != old[j]) != mods.contains(&j) {
                                    fails.push(format!("{what}: modified-index list wrong for proof {j}"));
                                }
                            }
                        } else {
                            sp = None;
                        }
                        let mods64: Vec<u64> = mods.iter().map(|x| *x as u64).collect();
                        let paths: Vec<Vec<Digest>> = mps.iter().map(|m| m.authentication_path.clone()).collect();
                        out.push(format!("{}{}{}", fmt_state(&acc), fmt_list_u64(&mods64), fmt_paths(&paths)));
                        plain.check(&acc, &mut fails, &what);
                        check_sp(&mut sp, &acc, &mut fails, &what);
                    }
                    Err(_) => {
                        if valid {
                            fails.push(format!("{what}: batch mutation panicked on valid input"));
                        }
                        acc = before;
                        out.push("panic".into());
                    }
                }
            }
            ("v", 4) => {
                let np = v[1].digests()?;
                let apps = v[2].digests()?;
                let muts = parse_muts(&v[3])?;
                let midx: Vec<u64> = muts.iter().map(|m| m.0).collect();
                let r = std::panic::catch_unwind(std::panic::AssertUnwindSafe(|| {
                    acc.verify_batch_update(&np, &apps, muts.iter().map(to_lm).collect())
                }));
                let dup = !all_distinct(&midx);
                let oob = midx.iter().any(|i| *i >= acc.num_leafs());
                match r {
                    Ok(b) => {
                        st.hit(&format!("bhist:verify {} dup={} oob={} muts={} apps={}", b, dup, oob, muts.len().min(3), apps.len().min(2)));
                        if (dup || oob) && b {
                            fails.push(format!("{what}: verify_batch_update accepted duplicate or out-of-range indices"));
                        }
                        if let (Some(s), false, false) = (&mut sp, dup, oob) {
                            if s.n + (apps.len() as u64) < (1 << 63) && muts.iter().all(|m| s.leafs.contains_key(&m.0)) && muts.iter().all(|m| m.2 == s.path(m.0)) {
                                let mut after = Sparse { n: s.n, leafs: s.leafs.clone(), opaque: s.opaque.clone(), rnd: None, missing: 0 };
                                for m in &muts {
                                    after.leafs.insert(m.0, m.1);
                                }
                                for d in &apps {
                                    after.append(*d);
                                }
                                let want = after.peaks() == np;
                                if after.missing == 0 {
                                    st.hit(&format!("bhist:verify oracle-applies want={}", want));
                                    if want != b {
                                        fails.push(format!("{what}: verify_batch_update returned {b}, the peaks recomputed by folding say {want}"));
                                    }
                                }
                            }
                        }
                        out.push(format!("v:{}", b));
                    }
                    Err(_) => {
                        st.hit("bhist:verify panic");
                        out.push("panic".into());
                    }
                }
            }
            _ => return None,
        }
    }
    let mut o = Out::ok(format!("ok:{}", out.join(" ")));
    if let Some(f) = fails.first() {
        o = o.with_oracle(false, f.clone());
    }
    Some(o)
}
