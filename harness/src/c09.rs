// PROP: C09  FAMILIES: polyd=run_polyd
//! C09 -- polynomial division, reduction, gcd and power-series inversion are exact.  Family `polyd`.
//!
//! Polynomials travel as lists of canonical coefficient values, lowest degree first, stored exactly as given
//! (stored high-order zeros included).  Replies print `p.coefficients()` (normalised).
use crate::util::*;
use num_traits::Zero;
use std::ops::MulAssign;
use std::panic::{catch_unwind, AssertUnwindSafe};
use std::sync::OnceLock;
use twenty_first::math::ntt::{intt, ntt};
use twenty_first::math::traits::*;
use twenty_first::prelude::*;

// ---------------------------------------------------------------------------------------------------
// thresholds (read from the translated constants so that generator and classifier follow the source)
// ---------------------------------------------------------------------------------------------------
#[derive(Clone, Copy, Debug)]
pub struct Th {
    pub fast_reduce_cutoff: usize,
    pub fast_reduce_multiple: isize,
    pub fps_cutoff: isize,
    pub clean_divide_cutoff: isize,
    pub fast_multiply_cutoff: isize,
}

fn th() -> Th {
    static T: OnceLock<Th> = OnceLock::new();
    *T.get_or_init(|| {
        let mut t = Th {
            fast_reduce_cutoff: 256,
            fast_reduce_multiple: 4,
            fps_cutoff: 256,
            clean_divide_cutoff: 512,
            fast_multiply_cutoff: 256,
        };
        let text = std::env::current_exe()
            .ok()
            .and_then(|p| p.ancestors().nth(4).map(|r| r.join("lean/TF/Gen/Consts.lean")))
            .and_then(|p| std::fs::read_to_string(p).ok())
            .unwrap_or_default();
        for line in text.lines() {
            let toks: Vec<&str> = line.split_whitespace().collect();
            // def NAME : Nat := 256 ...
            if toks.len() >= 6 && toks[0] == "def" && toks[2] == ":" && toks[3] == "Nat" && toks[4] == ":=" {
                let Ok(v) = toks[5].parse::<u64>() else { continue };
                if v == 0 || v > (1 << 30) {
                    continue;
                }
                match toks[1] {
                    "FAST_REDUCE_CUTOFF_THRESHOLD" => t.fast_reduce_cutoff = v as usize,
                    "FAST_REDUCE_MAKES_SENSE_MULTIPLE" => t.fast_reduce_multiple = v as isize,
                    "FORMAL_POWER_SERIES_INVERSE_CUTOFF" => t.fps_cutoff = v as isize,
                    "CLEAN_DIVIDE_CUTOFF_THRESHOLD" => t.clean_divide_cutoff = v as isize,
                    "FAST_MULTIPLY_CUTOFF_THRESHOLD" => t.fast_multiply_cutoff = v as isize,
                    _ => {}
                }
            }
        }
        t
    })
}

/// domain length used by `shift_factor_ntt_with_tail_length` for a modulus of degree `dm >= 0`
fn ntt_n(dm: usize) -> usize {
    usize::max(th().fast_reduce_cutoff, dm * 2).next_power_of_two()
}

// ---------------------------------------------------------------------------------------------------
// the two coefficient fields
// ---------------------------------------------------------------------------------------------------
pub trait Fld: FiniteField + MulAssign<BFieldElement> + 'static {
    const TAG: &'static str;
    fn parse(a: &Arg) -> Option<Self>;
    fn show(&self) -> String;
    /// random coefficient; style 0 uniform, 1 boundary, 2 small, 3 mixed
    fn rnd(rng: &mut Rng, style: u8) -> Self;
    fn from_b(b: BFieldElement) -> Self;
}

fn rnd_b(rng: &mut Rng, style: u8) -> BFieldElement {
    match style {
        0 => BFieldElement::new(rng.below(P)),
        1 => rng.bfe(),
        2 => BFieldElement::new(match rng.below(4) {
            0 => P - 1 - rng.below(3),
            _ => rng.below(5),
        }),
        _ => {
            let s = rng.below(3) as u8;
            rnd_b(rng, s)
        }
    }
}

impl Fld for BFieldElement {
    const TAG: &'static str = "b";
    fn parse(a: &Arg) -> Option<Self> {
        let v = a.u64()?;
        if v >= P {
            return None;
        }
        Some(BFieldElement::new(v))
    }
    fn show(&self) -> String {
        self.value().to_string()
    }
    fn rnd(rng: &mut Rng, style: u8) -> Self {
        rnd_b(rng, style)
    }
    fn from_b(b: BFieldElement) -> Self {
        b
    }
}

impl Fld for XFieldElement {
    const TAG: &'static str = "x";
    fn parse(a: &Arg) -> Option<Self> {
        match a {
            Arg::Tup(v) if v.len() == 3 => Some(XFieldElement::new([
                BFieldElement::parse(&v[0])?,
                BFieldElement::parse(&v[1])?,
                BFieldElement::parse(&v[2])?,
            ])),
            _ => None,
        }
    }
    fn show(&self) -> String {
        fmt_xfe(self)
    }
    fn rnd(rng: &mut Rng, style: u8) -> Self {
        match style {
            1 => rng.xfe(),
            _ => {
                // some coefficients are lifted base-field values
                if rng.coin(1, 6) {
                    XFieldElement::new([rnd_b(rng, style), BFieldElement::new(0), BFieldElement::new(0)])
                } else {
                    XFieldElement::new([rnd_b(rng, style), rnd_b(rng, style), rnd_b(rng, style)])
                }
            }
        }
    }
    fn from_b(b: BFieldElement) -> Self {
        XFieldElement::new([b, BFieldElement::new(0), BFieldElement::new(0)])
    }
}

fn ppoly<FF: Fld>(a: &Arg) -> Option<Vec<FF>> {
    a.list()?.iter().map(FF::parse).collect()
}
fn spoly<FF: Fld>(v: &[FF]) -> String {
    let mut s = String::with_capacity(2 + v.len() * 21);
    s.push('[');
    for (i, c) in v.iter().enumerate() {
        if i > 0 {
            s.push(',');
        }
        s.push_str(&c.show());
    }
    s.push(']');
    s
}

// ---------------------------------------------------------------------------------------------------
// independent schoolbook arithmetic on coefficient vectors (only field + - * inverse of the crate)
// ---------------------------------------------------------------------------------------------------
fn trim<FF: Fld>(v: &[FF]) -> Vec<FF> {
    let mut n = v.len();
    while n > 0 && v[n - 1] == FF::ZERO {
        n -= 1;
    }
    v[..n].to_vec()
}
fn deg<FF: Fld>(v: &[FF]) -> isize {
    let mut n = v.len();
    while n > 0 && v[n - 1] == FF::ZERO {
        n -= 1;
    }
    n as isize - 1
}
fn peq<FF: Fld>(a: &[FF], b: &[FF]) -> bool {
    trim(a) == trim(b)
}
fn sb_add<FF: Fld>(a: &[FF], b: &[FF]) -> Vec<FF> {
    let mut r = vec![FF::ZERO; a.len().max(b.len())];
    for (i, c) in a.iter().enumerate() {
        r[i] = r[i] + *c;
    }
    for (i, c) in b.iter().enumerate() {
        r[i] = r[i] + *c;
    }
    trim(&r)
}
fn sb_sub<FF: Fld>(a: &[FF], b: &[FF]) -> Vec<FF> {
    let mut r = vec![FF::ZERO; a.len().max(b.len())];
    for (i, c) in a.iter().enumerate() {
        r[i] = r[i] + *c;
    }
    for (i, c) in b.iter().enumerate() {
        r[i] = r[i] - *c;
    }
    trim(&r)
}
fn sb_mul<FF: Fld>(a: &[FF], b: &[FF]) -> Vec<FF> {
    let (a, b) = (trim(a), trim(b));
    if a.is_empty() || b.is_empty() {
        return vec![];
    }
    let mut r = vec![FF::ZERO; a.len() + b.len() - 1];
    for (i, x) in a.iter().enumerate() {
        if *x == FF::ZERO {
            continue;
        }
        for (j, y) in b.iter().enumerate() {
            r[i + j] = r[i + j] + *x * *y;
        }
    }
    trim(&r)
}
/// (a * b) mod X^n
fn sb_mul_trunc<FF: Fld>(a: &[FF], b: &[FF], n: usize) -> Vec<FF> {
    let mut r = vec![FF::ZERO; n];
    for (i, x) in a.iter().enumerate().take(n) {
        if *x == FF::ZERO {
            continue;
        }
        for (j, y) in b.iter().enumerate().take(n - i) {
            r[i + j] = r[i + j] + *x * *y;
        }
    }
    trim(&r)
}
/// long division; `None` iff the divisor is zero
fn sb_divmod<FF: Fld>(a: &[FF], d: &[FF]) -> Option<(Vec<FF>, Vec<FF>)> {
    let mut r = trim(a);
    let d = trim(d);
    if d.is_empty() {
        return None;
    }
    if r.len() < d.len() {
        return Some((vec![], r));
    }
    let lc_inv = d[d.len() - 1].inverse();
    let mut q = vec![FF::ZERO; r.len() - d.len() + 1];
    for i in (0..q.len()).rev() {
        let c = r[i + d.len() - 1] * lc_inv;
        q[i] = c;
        if c == FF::ZERO {
            continue;
        }
        for (j, y) in d.iter().enumerate() {
            r[i + j] = r[i + j] - c * *y;
        }
    }
    r.truncate(d.len() - 1);
    Some((trim(&q), trim(&r)))
}
fn sb_rem<FF: Fld>(a: &[FF], d: &[FF]) -> Option<Vec<FF>> {
    sb_divmod(a, d).map(|(_, r)| r)
}
fn x_to_the<FF: Fld>(n: usize) -> Vec<FF> {
    let mut v = vec![FF::ZERO; n + 1];
    v[n] = FF::ONE;
    v
}

// ---------------------------------------------------------------------------------------------------
// running one op on the crate
// ---------------------------------------------------------------------------------------------------
fn mk<'a, FF: Fld>(v: &'a [FF], borrowed: bool) -> Polynomial<'a, FF> {
    if borrowed {
        Polynomial::new_borrowed(v)
    } else {
        Polynomial::new(v.to_vec())
    }
}

fn hash_arg(a: &Arg, h: &mut u64) {
    let mut mix = |x: u64| {
        *h ^= x;
        *h = h.wrapping_mul(0x0000_0100_0000_01b3);
    };
    match a {
        Arg::Nat(n) => {
            mix(1);
            mix(*n as u64);
            mix((*n >> 64) as u64);
        }
        Arg::Neg(n) => {
            mix(2);
            mix(*n as u64);
        }
        Arg::Sym(s) => {
            mix(3);
            for b in s.bytes() {
                mix(b as u64);
            }
        }
        Arg::List(v) | Arg::Tup(v) => {
            mix(if matches!(a, Arg::List(_)) { 4 } else { 5 });
            mix(v.len() as u64);
            for x in v {
                hash_arg(x, h);
            }
        }
    }
}
/// deterministic per op line: decides borrowed/owned construction of the operands
fn line_hash(op: &str, args: &[Arg]) -> u64 {
    let mut h = 0xcbf2_9ce4_8422_2325u64;
    for b in op.bytes() {
        h ^= b as u64;
        h = h.wrapping_mul(0x0000_0100_0000_01b3);
    }
    for a in args {
        hash_arg(a, &mut h);
    }
    h ^ (h >> 29)
}

fn guarded<T>(f: impl FnOnce() -> T) -> Option<T> {
    catch_unwind(AssertUnwindSafe(f)).ok()
}

fn size_class(n: usize) -> &'static str {
    match n {
        0..=64 => "small",
        65..=255 => "medium",
        256..=1023 => "large",
        _ => "huge",
    }
}

fn operand_stats<FF: Fld>(st: &mut Stats, role: &str, v: &[FF]) {
    let d = deg(v);
    if v.len() as isize > d + 1 {
        st.hit("storage:leading-zeros");
        st.hit(&format!("storage:leading-zeros:{role}"));
    }
    if d < 0 {
        st.hit("operand:zero");
        st.hit(&format!("operand:zero:{role}:stored-len={}", v.len().min(3)));
    } else if d == 0 {
        st.hit("operand:constant");
        st.hit(&format!("operand:constant:{role}"));
    }
    if d >= 1 && v[0] == FF::ZERO {
        st.hit(&format!("operand:x-factor:{role}"));
    }
    if d >= 0 && v[d as usize] == FF::ONE {
        st.hit(&format!("operand:monic:{role}"));
    }
}

/// statistics of the stages of `fast_reduce` (only called when deg a >= deg m >= 1)
fn fast_reduce_stats<FF: Fld>(st: &mut Stats, av: &[FF], mv: &[FF]) {
    let dm = deg(mv) as usize;
    let n = ntt_n(dm);
    st.hit(&format!("fast_reduce:n={n}"));
    st.hit(if av.len() >= n { "fast_reduce:stage1=active" } else { "fast_reduce:stage1=inactive" });
    let pa = Polynomial::new_borrowed(av);
    let pm = Polynomial::new_borrowed(mv);
    let inter = guarded(|| {
        let (v, m) = pm.shift_factor_ntt_with_tail_length();
        pa.reduce_by_ntt_friendly_modulus(&v, m).degree()
    });
    match inter {
        Some(d) if d > 4 * dm as isize => st.hit("fast_reduce:stage2=active"),
        Some(_) => st.hit("fast_reduce:stage2=inactive"),
        None => st.hit("fast_reduce:stage2=unknown"),
    }
}

fn run_f<FF: Fld>(op: &str, a: &[Arg], st: &mut Stats, h: u64) -> Option<Out> {
    let t = th();
    let b0 = h & 1 == 1;
    let b1 = h & 2 == 2;
    st.hit(&format!("field:{}", FF::TAG));
    Some(match (op, a) {
        ("divide" | "naive_divide" | "div" | "rem", [x, y]) => {
            let (av, dv) = (ppoly::<FF>(x)?, ppoly::<FF>(y)?);
            operand_stats(st, "dividend", &av);
            operand_stats(st, "divisor", &dv);
            let (da, dd) = (deg(&av), deg(&dv));
            st.hit(&format!("divide:size={}", size_class(av.len().max(dv.len()))));
            if dd < 0 {
                st.hit("divide:ratio=divisor-zero");
                st.hit("expect:panic");
            } else if da < dd {
                st.hit("divide:ratio=lt1");
            } else if da <= 4 * dd {
                st.hit("divide:ratio=1-4");
            } else {
                st.hit("divide:ratio=gt4");
            }
            if dd >= 0 && da == dd {
                st.hit("divide:deg-equal");
            }
            if dd >= 0 && (da - dd + 1).max(0) * dd > 100_000 {
                st.hit(&format!("divide:products>100k:{}", FF::TAG));
            }
            st.hit(&format!("borrow:{}{}", b0 as u8, b1 as u8));
            let (pa, pd) = (mk(&av, b0), mk(&dv, b1));
            let sb = sb_divmod(&av, &dv);
            match op {
                "divide" | "naive_divide" => {
                    let (q, r) = if op == "divide" { pa.divide(&pd) } else { pa.naive_divide(&pd) };
                    let (qv, rv) = (q.coefficients().to_vec(), r.coefficients().to_vec());
                    st.hit("outcome:ok");
                    if rv.is_empty() && da >= 0 {
                        st.hit("divide:clean");
                    }
                    let recomposed = sb_add(&sb_mul(&qv, &dv), &rv);
                    Out::ok(format!("ok:[{},{}]", spoly(&qv), spoly(&rv)))
                        .with_oracle(dd >= 0, "divide: returned for a zero divisor")
                        .with_oracle(peq(&recomposed, &av), "divide: a != q*d + r")
                        .with_oracle(deg(&rv) < dd, "divide: deg r >= deg d")
                        .with_oracle(sb.as_ref().is_some_and(|(q2, r2)| *q2 == qv && *r2 == rv), "divide: differs from schoolbook long division")
                }
                "div" => {
                    let q = pa / pd;
                    let qv = q.coefficients().to_vec();
                    st.hit("outcome:ok");
                    let diff = sb_sub(&av, &sb_mul(&qv, &dv));
                    Out::ok(format!("ok:{}", spoly(&qv)))
                        .with_oracle(dd >= 0, "div: returned for a zero divisor")
                        .with_oracle(deg(&diff) < dd, "div: deg(a - q*d) >= deg d")
                        .with_oracle(sb.as_ref().is_some_and(|(q2, _)| *q2 == qv), "div: differs from schoolbook quotient")
                }
                _ => {
                    let r = pa % pd;
                    let rv = r.coefficients().to_vec();
                    st.hit("outcome:ok");
                    Out::ok(format!("ok:{}", spoly(&rv)))
                        .with_oracle(dd >= 0, "rem: returned for a zero divisor")
                        .with_oracle(deg(&rv) < dd, "rem: deg r >= deg d")
                        .with_oracle(sb.as_ref().is_some_and(|(_, r2)| *r2 == rv), "rem: differs from schoolbook remainder")
                }
            }
        }
        ("reduce" | "fast_reduce", [x, y]) => {
            let (av, mv) = (ppoly::<FF>(x)?, ppoly::<FF>(y)?);
            operand_stats(st, "dividend", &av);
            operand_stats(st, "modulus", &mv);
            let (da, dm) = (deg(&av), deg(&mv));
            st.hit(&format!("reduce:size={}", size_class(av.len().max(mv.len()))));
            let arm = if dm < 0 {
                "modzero"
            } else if dm == 0 {
                "moddeg0"
            } else if da < dm {
                "small"
            } else if da > t.fast_reduce_multiple * dm {
                "fast"
            } else {
                "long"
            };
            if dm < 0 {
                st.hit("expect:panic");
            }
            if dm >= 1 {
                // where does the dividend sit relative to the dispatch boundary deg a > 4 deg m
                let b = t.fast_reduce_multiple * dm;
                if da == b - 1 || da == b || da == b + 1 {
                    st.hit(&format!("reduce:dispatch-boundary={}", da - b));
                }
            }
            if dm >= 0 {
                st.hit(&format!("ntt-n:{}:{}", FF::TAG, ntt_n(dm as usize)));
            }
            if op == "reduce" {
                st.hit(&format!("reduce:arm={arm}"));
            } else {
                st.hit(&format!("fast_reduce:entry={arm}"));
            }
            if dm >= 1 && da >= dm && (op == "fast_reduce" || arm == "fast") {
                fast_reduce_stats(st, &av, &mv);
            }
            st.hit(&format!("borrow:{}{}", b0 as u8, b1 as u8));
            let (pa, pm) = (mk(&av, b0), mk(&mv, b1));
            let r = if op == "reduce" { pa.reduce(&pm) } else { pa.fast_reduce(&pm) };
            let rv = r.coefficients().to_vec();
            st.hit("outcome:ok");
            let want = sb_rem(&av, &mv);
            // the other strategies must agree (each guarded: a panic there is a disagreement, not a reply)
            let others: [(&str, Option<Vec<FF>>); 3] = [
                ("rem", guarded(|| (mk(&av, !b0) % mk(&mv, !b1)).coefficients().to_vec())),
                ("reduce", guarded(|| mk(&av, !b0).reduce(&mk(&mv, !b1)).coefficients().to_vec())),
                ("fast_reduce", guarded(|| mk(&av, !b0).fast_reduce(&mk(&mv, !b1)).coefficients().to_vec())),
            ];
            let mut o = Out::ok(format!("ok:{}", spoly(&rv)))
                .with_oracle(dm >= 0, format!("{op}: returned for a zero modulus"))
                .with_oracle(deg(&rv) < dm.max(0), format!("{op}: deg r >= deg m"))
                .with_oracle(want.as_ref().is_some_and(|w| *w == rv), format!("{op}: differs from schoolbook remainder"));
            for (name, res) in others {
                o = o.with_oracle(res.as_ref().is_some_and(|w| *w == rv), format!("strategies-agree: {op} vs {name}"));
            }
            o
        }
        ("shift_factor", [y]) => {
            let mv = ppoly::<FF>(y)?;
            operand_stats(st, "modulus", &mv);
            let dm = deg(&mv);
            if dm < 0 {
                st.hit("expect:panic");
            } else {
                st.hit(&format!("shift_factor:n={}", ntt_n(dm as usize)));
                st.hit(&format!("ntt-n:{}:{}", FF::TAG, ntt_n(dm as usize)));
            }
            st.hit(&format!("borrow:{}", b0 as u8));
            let pm = mk(&mv, b0);
            let (v, m) = pm.shift_factor_ntt_with_tail_length();
            st.hit("outcome:ok");
            let n = v.len();
            let mut low = v.clone();
            let pow2 = n.is_power_of_two();
            if pow2 {
                intt(&mut low);
            }
            let mut full = low.clone();
            full.push(FF::ONE);
            let rem = sb_rem(&full, &mv);
            let want_m = 1 + low.iter().rposition(|c| *c != FF::ZERO).unwrap_or(0);
            if dm >= 0 {
                st.hit(if m as isize == dm { "shift_factor:m=deg" } else if (m as isize) < dm { "shift_factor:m<deg" } else { "shift_factor:m>deg" });
            }
            Out::ok(format!("ok:{};{}", spoly(&v), m))
                .with_oracle(dm >= 0, "shift_factor: returned for a zero modulus")
                .with_oracle(pow2, "shift_factor: length not a power of two")
                .with_oracle(dm < 0 || n == ntt_n(dm as usize), "shift_factor: unexpected domain length")
                .with_oracle(rem.as_ref().is_some_and(|r| r.is_empty()), "shift_factor: intt(v) + X^n is not a multiple of the modulus")
                .with_oracle(m == want_m, "shift_factor: tail length wrong")
        }
        ("reduce_ntt", [x, y]) => {
            let (av, mv) = (ppoly::<FF>(x)?, ppoly::<FF>(y)?);
            operand_stats(st, "dividend", &av);
            operand_stats(st, "modulus", &mv);
            let dm = deg(&mv);
            if dm < 0 {
                st.hit("expect:panic");
            } else {
                st.hit(&format!("ntt-n:{}:{}", FF::TAG, ntt_n(dm as usize)));
            }
            st.hit(&format!("borrow:{}{}", b0 as u8, b1 as u8));
            let (pa, pm) = (mk(&av, b0), mk(&mv, b1));
            let (v, m) = pm.shift_factor_ntt_with_tail_length();
            let n = v.len();
            if av.len() < n {
                st.hit("reduce_ntt:chunks=none(short)");
            } else if n > m {
                let chunk = n - m;
                let k = (av.len() - n).div_ceil(chunk);
                st.hit(&format!("reduce_ntt:chunks={}", if k >= 3 { "3+".to_string() } else { k.to_string() }));
                st.hit(if (av.len() - n) % chunk == 0 { "reduce_ntt:last-window=exact" } else { "reduce_ntt:last-window=partial" });
            }
            let r = pa.reduce_by_ntt_friendly_modulus(&v, m);
            let rv = r.coefficients().to_vec();
            st.hit("outcome:ok");
            let diff = sb_sub(&av, &rv);
            let rem = sb_rem(&diff, &mv);
            Out::ok(format!("ok:{}", spoly(&rv)))
                .with_oracle(dm >= 0, "reduce_ntt: returned for a zero modulus")
                .with_oracle(rem.as_ref().is_some_and(|r| r.is_empty()), "reduce_ntt: a - result is not a multiple of the modulus")
                .with_oracle(rv.len() <= n, "reduce_ntt: result longer than the domain")
        }
        ("struct_mult", [y, nn]) => {
            let (pv, n) = (ppoly::<FF>(y)?, nn.usize()?);
            operand_stats(st, "modulus", &pv);
            let dp = deg(&pv);
            let arm = if dp < 0 {
                "zero"
            } else if dp as usize > n {
                "n<deg"
            } else if dp == 0 {
                "const"
            } else {
                "general"
            };
            st.hit(&format!("struct_mult:arm={arm}"));
            if dp < 0 || dp as usize > n {
                st.hit("expect:panic");
            } else if dp as usize == n {
                st.hit("struct_mult:n=deg");
            }
            st.hit(&format!("borrow:{}", b0 as u8));
            let pp = mk(&pv, b0);
            let s = pp.structured_multiple_of_degree(n);
            let sv = s.coefficients().to_vec();
            st.hit("outcome:ok");
            let rem = sb_rem(&sv, &pv);
            let low = sb_sub(&sv, &x_to_the::<FF>(n));
            let mut o = Out::ok(format!("ok:{}", spoly(&sv)))
                .with_oracle(dp >= 0 && dp as usize <= n, "struct_mult: returned outside the domain")
                .with_oracle(rem.as_ref().is_some_and(|r| r.is_empty()), "struct_mult: not a multiple")
                .with_oracle(deg(&sv) == n as isize, "struct_mult: degree != n");
            if dp >= 1 {
                o = o
                    .with_oracle(sv.last() == Some(&FF::ONE), "struct_mult: not monic")
                    .with_oracle(deg(&low) < dp, "struct_mult: low part has degree >= deg P");
            }
            o
        }
        ("xgcd", [x, y]) => {
            let (xv, yv) = (ppoly::<FF>(x)?, ppoly::<FF>(y)?);
            operand_stats(st, "x", &xv);
            operand_stats(st, "y", &yv);
            let (dx, dy) = (deg(&xv), deg(&yv));
            st.hit(&format!("xgcd:size={}", size_class(xv.len().max(yv.len()))));
            st.hit(&format!("borrow:{}{}", b0 as u8, b1 as u8));
            let (g, ca, cb) = Polynomial::xgcd(mk(&xv, b0), mk(&yv, b1));
            let (gv, cav, cbv) = (g.coefficients().to_vec(), ca.coefficients().to_vec(), cb.coefficients().to_vec());
            st.hit("outcome:ok");
            let dg = deg(&gv);
            let class = if dx < 0 && dy < 0 {
                "both-zero"
            } else if dx < 0 || dy < 0 {
                "one-zero"
            } else if peq(&xv, &yv) {
                "equal"
            } else if dg == dx.min(dy) && dg >= 1 {
                "multiple"
            } else if dg == 0 {
                "coprime"
            } else {
                "common-factor"
            };
            st.hit(&format!("xgcd:class={class}"));
            let bezout = sb_add(&sb_mul(&cav, &xv), &sb_mul(&cbv, &yv));
            let mut o = Out::ok(format!("ok:[{},{},{}]", spoly(&gv), spoly(&cav), spoly(&cbv)))
                .with_oracle(gv.is_empty() || gv.last() == Some(&FF::ONE), "xgcd: gcd neither zero nor monic")
                .with_oracle(bezout == gv, "xgcd: g != a*x + b*y");
            if dx < 0 && dy < 0 {
                o = o.with_oracle(gv.is_empty(), "xgcd: gcd(0,0) != 0");
            } else {
                o = o
                    .with_oracle(!gv.is_empty(), "xgcd: gcd zero for a non-zero input")
                    .with_oracle(sb_rem(&xv, &gv).is_some_and(|r| r.is_empty()), "xgcd: g does not divide x")
                    .with_oracle(sb_rem(&yv, &gv).is_some_and(|r| r.is_empty()), "xgcd: g does not divide y");
            }
            o
        }
        ("fps_newton", [y, nn]) => {
            let (pv, n) = (ppoly::<FF>(y)?, nn.usize()?);
            operand_stats(st, "series", &pv);
            let dp = deg(&pv);
            let num_rounds = n.next_power_of_two().ilog2();
            if dp < 0 {
                st.hit("fps:arm=zero");
                st.hit("expect:panic");
            } else if dp == 0 {
                st.hit("fps:arm=const");
            } else {
                let switch_point = if t.fps_cutoff < dp { 0 } else { (t.fps_cutoff / dp).ilog2() };
                if pv[0] == FF::ZERO {
                    st.hit("fps:constant-term-zero");
                    st.hit("expect:panic");
                } else if switch_point < num_rounds {
                    st.hit("fps:arm=ntt");
                    st.hit(&format!("fps:ntt-domain:{}:{}", FF::TAG, fps_full(dp as usize, n)));
                    st.hit(&format!("fps:ntt:standard-rounds={} ntt-rounds={}", switch_point.min(9), (num_rounds - switch_point).min(9)));
                } else {
                    st.hit("fps:arm=standard-only");
                }
                if switch_point == num_rounds || switch_point + 1 == num_rounds {
                    st.hit(&format!("fps:switch-boundary={}", num_rounds as i64 - switch_point as i64));
                }
            }
            st.hit(&format!("fps:rounds={}", num_rounds));
            st.hit(&format!("borrow:{}", b0 as u8));
            let g = mk(&pv, b0).formal_power_series_inverse_newton(n);
            let gfull = g.coefficients().to_vec();
            let gt = g.mod_x_to_the_n(n);
            let gtv = gt.coefficients().to_vec();
            st.hit("outcome:ok");
            let mut o = Out::ok(format!("ok:{}", spoly(&gtv)))
                .with_oracle(dp >= 0 && pv[0] != FF::ZERO, "fps_newton: returned for a non-invertible series");
            if n >= 1 {
                let prod = sb_mul_trunc(&pv, &gfull, n);
                o = o.with_oracle(prod == vec![FF::ONE], "fps_newton: P*G mod X^n != 1");
            } else {
                o = o.with_oracle(gtv.is_empty(), "fps_newton: G mod X^0 != 0");
            }
            o
        }
        ("mod_x_n", [y, nn]) => {
            let (pv, n) = (ppoly::<FF>(y)?, nn.usize()?);
            operand_stats(st, "poly", &pv);
            st.hit(if n < pv.len() { "mod_x_n:n<len" } else if n == pv.len() { "mod_x_n:n=len" } else { "mod_x_n:n>len" });
            let r = Polynomial::new(pv.clone()).mod_x_to_the_n(n);
            let rv = r.coefficients().to_vec();
            st.hit("outcome:ok");
            let want = trim(&pv[..n.min(pv.len())]);
            Out::ok(format!("ok:{}", spoly(&rv))).with_oracle(rv == want, "mod_x_n: wrong coefficients")
        }
        ("truncate", [y, kk]) => {
            let (pv, k) = (ppoly::<FF>(y)?, kk.usize()?);
            operand_stats(st, "poly", &pv);
            let norm = trim(&pv);
            let k1 = k as u128 + 1;
            st.hit(if k == usize::MAX { "truncate:k=usize::MAX" } else if k1 < norm.len() as u128 { "truncate:k<deg" } else if k1 == norm.len() as u128 { "truncate:k=deg" } else { "truncate:k>deg" });
            let r = Polynomial::new(pv.clone()).truncate(k);
            let rv = r.coefficients().to_vec();
            st.hit("outcome:ok");
            let keep = (k.saturating_add(1)).min(norm.len());
            let want = trim(&norm[norm.len() - keep..]);
            Out::ok(format!("ok:{}", spoly(&rv))).with_oracle(rv == want, "truncate: wrong coefficients")
        }
        _ => return None,
    })
}

/// does the divisor (after the removal of one factor X when d[0] = 0) vanish on the evaluation coset
/// (0,1,0)·<omega> of order (deg a' + 1).next_power_of_two() that `clean_divide` uses?  Statistics only.
fn clean_divide_coset_root(av: &[BFieldElement], dv: &[BFieldElement]) -> Option<bool> {
    let mut a = av.to_vec();
    let mut d = dv.to_vec();
    if d.first().is_some_and(|c| c.is_zero()) {
        if !a.is_empty() {
            a.remove(0);
        }
        d.remove(0);
    }
    let order = ((deg(&a) + 1) as usize).next_power_of_two();
    let offset = XFieldElement::new([BFieldElement::new(0), BFieldElement::new(1), BFieldElement::new(0)]);
    guarded(move || {
        let mut c: Vec<XFieldElement> = Polynomial::new(d).scale::<XFieldElement, XFieldElement>(offset).into_coefficients();
        // the crate resizes the *stored* scaled coefficients; scaling keeps zeros zero, so truncation matches
        c.resize(order, XFieldElement::zero());
        ntt(&mut c);
        c.iter().any(|x| x.is_zero())
    })
}

fn run_clean(a: &[Arg], st: &mut Stats, h: u64) -> Option<Out> {
    let t = th();
    let [x, y] = a else { return None };
    let (av, dv) = (ppoly::<BFieldElement>(x)?, ppoly::<BFieldElement>(y)?);
    st.hit("field:b");
    operand_stats(st, "dividend", &av);
    operand_stats(st, "divisor", &dv);
    let (da, dd) = (deg(&av), deg(&dv));
    let sb = sb_divmod(&av, &dv);
    let clean = sb.as_ref().is_some_and(|(_, r)| r.is_empty());
    st.hit(if dd < 0 { "clean_divide:input=zero-divisor" } else if clean { "clean_divide:input=clean" } else { "clean_divide:input=unclean" });
    if dd < 0 {
        st.hit("expect:panic");
    }
    if dd < t.clean_divide_cutoff {
        st.hit("clean_divide:arm=long");
    } else {
        if dv[0].is_zero() {
            st.hit("clean_divide:arm=x-factor");
            let k = dv.iter().take_while(|c| c.is_zero()).count();
            st.hit(&format!("clean_divide:x-factor:k={}", k.min(4)));
        }
        match clean_divide_coset_root(&av, &dv) {
            Some(true) => st.hit("clean_divide:arm=coset-root-fallback"),
            Some(false) => st.hit("clean_divide:arm=ntt"),
            None => st.hit("clean_divide:arm=unknown"),
        }
        if da < 0 {
            st.hit("clean_divide:big-divisor:zero-dividend");
        } else {
            let order = ((da + 1) as usize).next_power_of_two();
            st.hit(&format!("clean_divide:order~{}", order));
            if ((da + 1) as usize).is_power_of_two() || (da as usize).is_power_of_two() {
                st.hit("clean_divide:order-boundary");
            }
            st.hit(&format!("clean_divide:quotient-deg={}", match da - dd {
                i if i < 0 => "neg",
                0 => "0",
                1..=64 => "1-64",
                65..=511 => "65-511",
                _ => ">=512",
            }));
        }
    }
    let (b0, b1) = (h & 1 == 1, h & 2 == 2);
    st.hit(&format!("borrow:{}{}", b0 as u8, b1 as u8));
    let q = mk(&av, b0).clean_divide(mk(&dv, b1));
    let qv = q.coefficients().to_vec();
    st.hit("outcome:ok");
    let mut o = Out::ok(format!("ok:{}", spoly(&qv))).with_oracle(dd >= 0, "clean_divide: returned for a zero divisor");
    if clean {
        o = o
            .with_oracle(peq(&sb_mul(&qv, &dv), &av), "clean_divide: q*d != a")
            .with_oracle(sb.as_ref().is_some_and(|(q2, _)| *q2 == qv), "clean_divide: differs from schoolbook quotient");
    } else if dd >= 0 && dd < t.clean_divide_cutoff {
        // unclean input below the cutoff is plain long division (release build: no debug_assert)
        o = o.with_oracle(sb.as_ref().is_some_and(|(q2, _)| *q2 == qv), "clean_divide: (unclean, long arm) differs from schoolbook quotient");
    }
    Some(o)
}

pub fn run_polyd(op: &str, args: &[Arg], st: &mut Stats) -> Option<Out> {
    let h = line_hash(op, args);
    if op == "clean_divide" {
        return run_clean(args, st, h);
    }
    match args.first()?.sym()? {
        "b" => run_f::<BFieldElement>(op, &args[1..], st, h),
        "x" => run_f::<XFieldElement>(op, &args[1..], st, h),
        _ => None,
    }
}

// ---------------------------------------------------------------------------------------------------
// generator
// ---------------------------------------------------------------------------------------------------
/// polynomial of exact degree `d` (`d < 0`: empty), no stored leading zeros.
/// style: 0 uniform, 1 boundary values, 2 small values, 3 mixed, 4 sparse (mostly zeros)
fn rpoly<FF: Fld>(rng: &mut Rng, d: isize, style: u8) -> Vec<FF> {
    if d < 0 {
        return vec![];
    }
    let d = d as usize;
    let cs = if style == 4 { 0 } else { style };
    let mut v: Vec<FF> = (0..=d)
        .map(|_| if style == 4 && !rng.coin(1, 8) { FF::ZERO } else { FF::rnd(rng, cs) })
        .collect();
    while v[d] == FF::ZERO {
        v[d] = FF::rnd(rng, cs);
    }
    v
}
fn rstyle(rng: &mut Rng) -> u8 {
    match rng.below(10) {
        0..=3 => 0,
        4 | 5 => 1,
        6 => 2,
        7 => 3,
        _ => 4,
    }
}
/// for big polynomials: uniform mostly (boundary-valued coefficients add little there)
fn rstyle_big(rng: &mut Rng) -> u8 {
    match rng.below(8) {
        0..=5 => 0,
        6 => 3,
        _ => 4,
    }
}
/// stored representation: with probability 1/4 append 1..5 stored high-order zeros; zero as [], [0], [0,0,0]
fn stored<FF: Fld>(mut v: Vec<FF>, rng: &mut Rng) -> Vec<FF> {
    if v.is_empty() {
        let k = *rng.pick(&[0usize, 0, 1, 3]);
        return vec![FF::ZERO; k];
    }
    if rng.coin(1, 4) {
        let k = 1 + rng.below(5) as usize;
        v.extend(std::iter::repeat(FF::ZERO).take(k));
    }
    v
}
fn padded<FF: Fld>(mut v: Vec<FF>, k: usize) -> Vec<FF> {
    v.extend(std::iter::repeat(FF::ZERO).take(k));
    v
}
fn rp<FF: Fld>(d: isize, rng: &mut Rng) -> Vec<FF> {
    let st = if d > 64 { rstyle_big(rng) } else { rstyle(rng) };
    let v = rpoly::<FF>(rng, d, st);
    stored(v, rng)
}
/// exact degree, never padded
fn rp_exact<FF: Fld>(d: isize, rng: &mut Rng) -> Vec<FF> {
    let st = if d > 64 { rstyle_big(rng) } else { rstyle(rng) };
    rpoly::<FF>(rng, d, st)
}
fn shifted<FF: Fld>(v: &[FF], k: usize) -> Vec<FF> {
    let mut r = vec![FF::ZERO; k];
    r.extend_from_slice(v);
    r
}
fn line2<FF: Fld>(out: &mut Vec<String>, op: &str, a: &[FF], d: &[FF]) {
    out.push(format!("polyd {} {} {} {}", op, FF::TAG, spoly(a), spoly(d)));
}
fn line1n<FF: Fld>(out: &mut Vec<String>, op: &str, p: &[FF], n: usize) {
    out.push(format!("polyd {} {} {} {}", op, FF::TAG, spoly(p), n));
}
fn line_clean(out: &mut Vec<String>, a: &[BFieldElement], d: &[BFieldElement]) {
    out.push(format!("polyd clean_divide {} {}", spoly(a), spoly(d)));
}

const DIV_OPS: [&str; 4] = ["divide", "naive_divide", "div", "rem"];

// ---- stream 1: divide / naive_divide / div / rem ------------------------------------------------------
fn gen_divide<FF: Fld>(rng: &mut Rng, thorough: bool, out: &mut Vec<String>) {
    // exhaustive small degree pairs, all four operations on the same operands
    let small: [isize; 6] = [-1, 0, 1, 2, 3, 7];
    for &da in &small {
        for &dd in &small {
            let (a, d) = (rp::<FF>(da, rng), rp::<FF>(dd, rng));
            for op in DIV_OPS {
                line2(out, op, &a, &d);
            }
        }
    }
    // random small
    let n = if thorough { 3500 } else if FF::TAG == "b" { 260 } else { 180 };
    for _ in 0..n {
        let dd = rng.below(41) as isize - if rng.coin(1, 30) { 1 } else { 0 };
        let da = match rng.below(4) {
            0 => rng.below(41) as isize,
            _ => dd.max(0) + rng.below(41 - dd.max(0) as u64) as isize,
        };
        let (a, d) = (rp::<FF>(da, rng), rp::<FF>(dd, rng));
        line2(out, *rng.pick(&DIV_OPS), &a, &d);
    }
    // dividend degree around 4 * divisor degree
    let n = if thorough { 150 } else { 14 };
    for _ in 0..n {
        let dd = 1 + rng.below(14) as isize;
        for da in [4 * dd - 1, 4 * dd, 4 * dd + 1] {
            let (a, d) = (rp::<FF>(da, rng), rp::<FF>(dd, rng));
            line2(out, *rng.pick(&DIV_OPS), &a, &d);
        }
    }
    // divisor degree around 128 / 256 / 512
    let is_b = FF::TAG == "b";
    if thorough {
        for center in [128isize, 256, 512] {
            for dd in [center - 1, center, center + 1] {
                for da in [dd - 1, dd, dd + 1, 2 * dd, 4 * dd - 1, 4 * dd + 1] {
                    let (a, d) = (rp::<FF>(da, rng), rp::<FF>(dd, rng));
                    line2(out, *rng.pick(&DIV_OPS), &a, &d);
                }
            }
        }
    } else {
        // quick tier: the model's long division costs ~ (da - dd + 1) * dd coefficient products per line;
        // at most 8 (b) / 2 (x) lines above 100 000 products here, plus the explicit 512-class lines below
        let (mut budget, hard) = if is_b { (8usize, 1_200_000isize) } else { (2usize, 600_000isize) };
        for (center, keep_num, keep_den) in [(128isize, if is_b { 4 } else { 1 }, if is_b { 4u64 } else { 5 }), (256, if is_b { 2 } else { 1 }, if is_b { 4 } else { 9 })] {
            for dd in [center - 1, center, center + 1] {
                for da in [dd - 1, dd, dd + 1, 2 * dd, 4 * dd - 1, 4 * dd + 1] {
                    if !rng.coin(keep_num, keep_den) {
                        continue;
                    }
                    let products = (da - dd + 1).max(0) * dd;
                    if products > 100_000 {
                        if budget == 0 || products > hard {
                            continue;
                        }
                        budget -= 1;
                    }
                    let (a, d) = (rp::<FF>(da, rng), rp::<FF>(dd, rng));
                    line2(out, *rng.pick(&DIV_OPS), &a, &d);
                }
            }
        }
        let picks: &[(isize, isize)] = if is_b { &[(511, 512), (512, 1024), (513, 2051)] } else { &[(512, 513)] };
        for &(dd, da) in picks {
            let (a, d) = (rp::<FF>(da, rng), rp::<FF>(dd, rng));
            line2(out, *rng.pick(&DIV_OPS), &a, &d);
        }
    }
    // special shapes
    let n = if thorough { 120 } else { 10 };
    for _ in 0..n {
        let da = rng.below(30) as isize;
        let dd = rng.below(da as u64 + 1) as isize;
        // zero divisor (panic expected), every representation
        let a = rp::<FF>(da, rng);
        let z = vec![FF::ZERO; *rng.pick(&[0usize, 1, 2, 3])];
        line2(out, *rng.pick(&DIV_OPS), &a, &z);
        // zero dividend
        let d = rp::<FF>(dd, rng);
        let z = vec![FF::ZERO; *rng.pick(&[0usize, 1, 2, 3])];
        line2(out, *rng.pick(&DIV_OPS), &z, &d);
        // constant divisor
        let c = rp::<FF>(0, rng);
        line2(out, *rng.pick(&DIV_OPS), &a, &c);
        // divisor (and dividend) with stored leading zeros
        let k = 1 + rng.below(5) as usize;
        let d2 = padded(rp_exact::<FF>(dd, rng), k);
        let a2 = if rng.coin(1, 2) { padded(rp_exact::<FF>(da, rng), 1 + rng.below(3) as usize) } else { a.clone() };
        line2(out, *rng.pick(&DIV_OPS), &a2, &d2);
        // dividend == divisor
        let same = if rng.coin(1, 2) { padded(trim(&a), 2) } else { a.clone() };
        line2(out, *rng.pick(&DIV_OPS), &a, &same);
        // exact multiple
        let q = rp_exact::<FF>(rng.below(20) as isize, rng);
        let prod = stored(sb_mul(&q, &d), rng);
        line2(out, *rng.pick(&DIV_OPS), &prod, &d);
        // monic divisor, divisor with leading coefficient P-1
        let mut dm = rp_exact::<FF>(dd, rng);
        dm[dd as usize] = FF::ONE;
        line2(out, *rng.pick(&DIV_OPS), &a, &dm);
        dm[dd as usize] = FF::from_b(BFieldElement::new(P - 1));
        line2(out, *rng.pick(&DIV_OPS), &a, &dm);
        // dividend degree one below / equal / one above the divisor degree
        let dd2 = 1 + rng.below(20) as isize;
        let da2 = dd2 + rng.below(3) as isize - 1;
        let (a3, d3) = (rp::<FF>(da2, rng), rp::<FF>(dd2, rng));
        line2(out, *rng.pick(&DIV_OPS), &a3, &d3);
    }
}

// ---- stream 2: reduce / fast_reduce / reduce_ntt / shift_factor ---------------------------------------
const RED_OPS: [&str; 3] = ["reduce", "fast_reduce", "reduce_ntt"];

/// dividend of stored length `len`; with probability 1/3 the top 1..6 stored coefficients are zero
fn dividend_of_len<FF: Fld>(len: usize, rng: &mut Rng) -> Vec<FF> {
    if len == 0 {
        return vec![];
    }
    if rng.coin(1, 3) {
        let k = (1 + rng.below(6) as usize).min(len);
        padded(rp_exact::<FF>((len - k) as isize - 1, rng), k)
    } else {
        rp_exact::<FF>(len as isize - 1, rng)
    }
}

fn gen_reduce<FF: Fld>(rng: &mut Rng, thorough: bool, out: &mut Vec<String>) {
    let is_b = FF::TAG == "b";
    let mut degs: Vec<usize> = vec![0, 1, 2, 3, 5, 10, 31, 63, 64, 65, 127, 128, 129, 255, 256, 257];
    if thorough {
        degs.extend([511, 512, 513]);
    } else if is_b {
        degs.push(*rng.pick(&[511usize, 512, 513]));
    }
    let lens_of = |dm: usize| -> Vec<usize> {
        let n = ntt_n(dm);
        let chunk = n - dm.max(1); // the tail length is (generically) deg M
        let mut lens: Vec<usize> = vec![dm, dm + 1, 4 * dm, 4 * dm + 1, 4 * dm + 2, n - 1, n, n + 1, n + chunk - 1, n + chunk, n + chunk + 1, 2 * n, 3 * n + 5];
        lens.sort();
        lens.dedup();
        lens
    };
    if !thorough {
        // quick tier: the model needs 0.2 s (n = 512) .. 1 s (n = 1024) per line of these classes, so they are sampled:
        // n = 512: b 3 shift_factor + 16 lines, x 1 + 5;   n = 1024: b 2 + 6, x 1 + 1
        let classes: [(Vec<usize>, usize); 2] = [
            (degs.iter().copied().filter(|&d| ntt_n(d) == 512).collect(), if is_b { 16 } else { 5 }),
            (degs.iter().copied().filter(|&d| ntt_n(d) >= 1024).collect(), if is_b { 6 } else { 1 }),
        ];
        degs.retain(|&d| ntt_n(d) < 512);
        for (class_degs, count) in classes {
            let mut cands: Vec<(usize, usize, &str)> = vec![];
            for (i, &dm) in class_degs.iter().enumerate() {
                if is_b || i + 1 == class_degs.len() {
                    let m = rp::<FF>(dm as isize, rng);
                    line1n_nop::<FF>(out, "shift_factor", &m);
                }
                let n = ntt_n(dm);
                for len in lens_of(dm) {
                    if !is_b && len > 2 * n {
                        continue;
                    }
                    for op in RED_OPS {
                        cands.push((dm, len, op));
                    }
                }
            }
            for _ in 0..count.min(cands.len()) {
                let (dm, len, op) = cands.swap_remove(rng.below(cands.len() as u64) as usize);
                let m = rp::<FF>(dm as isize, rng);
                let a = dividend_of_len::<FF>(len, rng);
                line2(out, op, &a, &m);
            }
        }
    }
    for &dm in &degs {
        let lens = lens_of(dm);
        let m = rp::<FF>(dm as isize, rng);
        line1n_nop::<FF>(out, "shift_factor", &m);
        for &len in &lens {
            let big = len > 1100;
            for op in RED_OPS {
                // quick tier: one op per (modulus, length) for b, every third for x; fewer of the big ones
                let keep = if thorough {
                    !big || is_b || rng.coin(1, 3)
                } else if is_b {
                    rng.coin(if big { 1 } else if len > 400 { 2 } else { 3 }, 9)
                } else {
                    !big && rng.coin(1, if len > 400 { 36 } else if len > 150 { 12 } else { 9 })
                };
                if !keep {
                    continue;
                }
                let m = if rng.coin(1, 3) { rp::<FF>(dm as isize, rng) } else { m.clone() };
                let a = dividend_of_len::<FF>(len, rng);
                line2(out, op, &a, &m);
            }
        }
    }
    // stage 2 of fast_reduce: small modulus degree, long dividend (stage 1 leaves degree < n = 256 > 4 deg M)
    let n = if thorough { 300 } else if is_b { 24 } else { 5 };
    for _ in 0..n {
        let dm = 1 + rng.below(63) as usize;
        let len = match rng.below(4) {
            0 => 256 + rng.below(6) as usize,
            1 => 256 + (256 - dm) * (1 + rng.below(3) as usize) + rng.below(3) as usize - 1,
            _ => 256 + rng.below(if thorough { 2800 } else if is_b { 1000 } else { 450 }) as usize,
        };
        let m = rp::<FF>(dm as isize, rng);
        let a = dividend_of_len::<FF>(len, rng);
        line2(out, *rng.pick(&["reduce", "fast_reduce", "fast_reduce", "reduce_ntt"]), &a, &m);
    }
    // small operands: stage 1 inactive, stage 2 (structured multiple of degree 3 deg M + 1) active or not
    let n = if thorough { 2500 } else if is_b { 190 } else { 120 };
    for _ in 0..n {
        let dm = rng.below(24) as usize;
        let len = match rng.below(5) {
            0 => 4 * dm + rng.below(4) as usize,
            1 => (3 * dm + 1) + rng.below(4) as usize,
            2 => rng.below(dm as u64 + 2) as usize,
            _ => rng.below(130) as usize,
        };
        let m = rp::<FF>(dm as isize, rng);
        let a = dividend_of_len::<FF>(len, rng);
        let op = *rng.pick(&["reduce", "reduce", "fast_reduce", "fast_reduce", "reduce_ntt"]);
        line2(out, op, &a, &m);
    }
    // special moduli
    let n = if thorough { 150 } else { 12 };
    for i in 0..n {
        let op = RED_OPS[i % 3];
        // X^k * g
        let dg = rng.below(12) as isize;
        let k = 1 + rng.below(4) as usize;
        let m = stored(shifted(&rp_exact::<FF>(dg, rng), k), rng);
        let a = dividend_of_len::<FF>(rng.below(100) as usize, rng);
        line2(out, op, &a, &m);
        if rng.coin(1, 3) {
            line1n_nop::<FF>(out, "shift_factor", &m);
        }
        // long dividend against X^k * g (both NTT stages)
        if i % 4 == 0 {
            let a = dividend_of_len::<FF>(256 + rng.below(400) as usize, rng);
            line2(out, op, &a, &m);
        }
        // modulus with stored leading zeros
        let m = padded(rp_exact::<FF>(1 + rng.below(12) as isize, rng), 1 + rng.below(5) as usize);
        let a = dividend_of_len::<FF>(rng.below(100) as usize, rng);
        line2(out, op, &a, &m);
        // zero modulus (panic), zero dividend
        let z = vec![FF::ZERO; *rng.pick(&[0usize, 1, 3])];
        let a = dividend_of_len::<FF>(rng.below(20) as usize, rng);
        line2(out, op, &a, &z);
        let m = rp::<FF>(rng.below(12) as isize, rng);
        line2(out, op, &z, &m);
        // monic modulus / X^k alone / X - c
        let mut mm = rp_exact::<FF>(1 + rng.below(10) as isize, rng);
        let top = mm.len() - 1;
        mm[top] = FF::ONE;
        let a = dividend_of_len::<FF>(rng.below(80) as usize, rng);
        line2(out, op, &a, &mm);
        let xk = x_to_the::<FF>(1 + rng.below(9) as usize);
        line2(out, op, &a, &xk);
    }
    for z in [0usize, 2] {
        line1n_nop::<FF>(out, "shift_factor", &vec![FF::ZERO; z]);
    }
    let n = if thorough { 60 } else { 6 };
    for _ in 0..n {
        let m = rp::<FF>(rng.below(40) as isize, rng);
        line1n_nop::<FF>(out, "shift_factor", &m);
    }
}
fn line1n_nop<FF: Fld>(out: &mut Vec<String>, op: &str, p: &[FF]) {
    out.push(format!("polyd {} {} {}", op, FF::TAG, spoly(p)));
}

// ---- stream 3: structured multiple ---------------------------------------------------------------------
fn gen_struct_mult<FF: Fld>(rng: &mut Rng, thorough: bool, out: &mut Vec<String>) {
    let is_b = FF::TAG == "b";
    for dp in [0usize, 1, 2, 5, 17, 64, 200] {
        let mut ns: Vec<usize> = vec![dp, dp + 1, 2 * dp, 3 * dp + 1, 256, 300];
        if dp >= 1 {
            ns.push(dp - 1);
        }
        if thorough || (is_b && rng.coin(1, 3)) {
            ns.push(512);
        }
        ns.sort();
        ns.dedup();
        for n in ns {
            if !thorough && !is_b && n >= 256 && !rng.coin(1, 3) {
                continue;
            }
            let p = rp::<FF>(dp as isize, rng);
            line1n(out, "struct_mult", &p, n);
        }
    }
    let n = if thorough { 1500 } else { 90 };
    for i in 0..n {
        let dp = rng.below(if thorough && i % 10 == 0 { 120 } else { 24 }) as usize;
        let nn = match rng.below(6) {
            0 => dp,
            1 => dp + 1,
            2 if dp >= 1 => dp - 1,
            3 => 3 * dp + 1,
            _ => dp + rng.below(if thorough && i % 10 == 0 { 300 } else { 60 }) as usize,
        };
        let p = match rng.below(6) {
            0 => {
                // X^k * g
                let k = 1 + rng.below(3) as usize;
                let g = rp_exact::<FF>(dp as isize - k as isize, rng);
                if g.is_empty() { rp::<FF>(dp as isize, rng) } else { stored(shifted(&g, k), rng) }
            }
            1 => padded(rp_exact::<FF>(dp as isize, rng), 1 + rng.below(5) as usize),
            _ => rp::<FF>(dp as isize, rng),
        };
        line1n(out, "struct_mult", &p, nn);
    }
    for z in [0usize, 1, 3] {
        line1n(out, "struct_mult", &vec![FF::ZERO; z], rng.below(10) as usize);
    }
    for n in [0usize, 1, 7] {
        // constants: 1, 2, P-1, random, with stored zeros
        line1n(out, "struct_mult", &[FF::ONE], n);
        line1n(out, "struct_mult", &[FF::from_b(BFieldElement::new(2))], n);
        line1n(out, "struct_mult", &[FF::from_b(BFieldElement::new(P - 1)), FF::ZERO], n);
        let c = rp::<FF>(0, rng);
        line1n(out, "struct_mult", &c, n);
    }
}

// ---- stream 4: clean_divide (base field only) -----------------------------------------------------------
type B = BFieldElement;

/// X^3 - w^2 X + w^3 with w = omega^i, omega of the given order: its roots are x*w*(conjugates), i.e. they lie on
/// the coset (0,1,0)*<omega> on which `clean_divide` evaluates (x^3 - x + 1 = 0 defines the extension field).
fn coset_factor(order: usize, i: u64) -> Vec<B> {
    let omega = B::primitive_root_of_unity(order as u64).unwrap();
    let w = omega.mod_pow(i);
    vec![w * w * w, -(w * w), B::new(0), B::new(1)]
}

#[derive(Clone, Copy, Default)]
struct Cd {
    dd: usize,            // divisor degree
    dq: isize,            // quotient degree, -1: zero dividend
    k: usize,             // divisor has the factor X^k
    coset: u8,            // 0: no root on the coset, 1: factor X^3 - X + 1 (i = 0), 2: random i
    pad_a: usize,         // stored leading zeros
    pad_d: usize,
    zero_repr: usize,     // stored length of a zero dividend
}

fn clean_case(rng: &mut Rng, c: Cd) -> (Vec<B>, Vec<B>) {
    let deg_a = if c.dq < 0 { -1 } else { c.dd as isize + c.dq };
    let deg_a_prime = if c.k >= 1 && deg_a >= 0 { deg_a - 1 } else { deg_a };
    let order = ((deg_a_prime + 1) as usize).next_power_of_two();
    let mut d: Vec<B> = vec![B::new(1)];
    let mut rest = c.dd as isize - c.k as isize;
    if c.coset > 0 && rest >= 3 {
        let i = if c.coset == 1 { 0 } else { rng.below(order as u64) };
        d = coset_factor(order, i);
        rest -= 3;
    }
    let mut g = rp_exact::<B>(rest.max(0), rng);
    if g[0].is_zero() {
        g[0] = B::new(1 + rng.below(P - 1)); // the X-power of the divisor is exactly k
    }
    d = shifted(&sb_mul(&d, &g), c.k);
    let a = if c.dq < 0 {
        vec![B::new(0); c.zero_repr]
    } else {
        let q = rp_exact::<B>(c.dq, rng);
        padded(sb_mul(&q, &d), c.pad_a)
    };
    (a, padded(d, c.pad_d))
}

/// directed witnesses of the repaired defects F9 (divisor vanishing on the evaluation coset) and F11 (zero
/// dividend, divisor with zero constant term); always the first lines of the stream (copied to corpus/C09/f9_f11.ops)
fn gen_f9_f11(rng: &mut Rng, out: &mut Vec<String>) {
    for c in [
        Cd { dd: 512, dq: 50, coset: 1, ..Default::default() },
        Cd { dd: 600, dq: 300, coset: 2, ..Default::default() },
        Cd { dd: 513, dq: 50, k: 1, coset: 2, ..Default::default() },
        Cd { dd: 512, dq: -1, k: 1, zero_repr: 0, ..Default::default() },
        Cd { dd: 512, dq: -1, k: 1, zero_repr: 1, ..Default::default() },
        Cd { dd: 600, dq: -1, k: 2, zero_repr: 3, ..Default::default() },
    ] {
        let (a, d) = clean_case(rng, c);
        line_clean(out, &a, &d);
    }
}

fn gen_clean(rng: &mut Rng, thorough: bool, out: &mut Vec<String>) {
    // small clean divisions
    let n = if thorough { 3000 } else { 220 };
    for _ in 0..n {
        let dd = rng.below(41) as isize;
        let dq = rng.below(42) as isize - 1;
        let mut d = rp_exact::<B>(dd, rng);
        if rng.coin(1, 6) {
            d = shifted(&d, 1 + rng.below(3) as usize);
        }
        let q = rp_exact::<B>(dq, rng);
        let a = stored(sb_mul(&q, &d), rng);
        let d = stored(d, rng);
        line_clean(out, &a, &d);
    }
    // below the cutoff an unclean input is just `divide`'s quotient
    let n = if thorough { 200 } else { 20 };
    for _ in 0..n {
        let dd = rng.below(30) as isize;
        let a = rp::<B>(rng.below(60) as isize, rng);
        let d = rp::<B>(dd, rng);
        line_clean(out, &a, &d);
    }
    // zero divisor: panic
    for z in [0usize, 1, 3] {
        let a = rp::<B>(rng.below(10) as isize - 1, rng);
        line_clean(out, &a, &vec![B::new(0); z]);
    }
    let c0 = Cd::default();
    let mut cases: Vec<Cd> = vec![];
    // plain, around the cutoff
    let plain: &[(usize, isize)] = if thorough {
        &[(511, 50), (511, 300), (512, -1), (512, 0), (512, 1), (512, 50), (512, 300), (512, 512), (513, 1), (513, 50), (600, 0), (600, 300), (700, 50), (700, -1)]
    } else {
        // quick tier: ~16 non-trivial NTT-arm lines and ~10 fallback lines in total (incl. gen_f9_f11), dividend degree <= 1536
        &[(511, 50), (511, 300), (512, -1), (512, 0), (512, 1), (512, 50), (512, 300), (600, 300), (700, 50), (700, -1)]
    };
    for &(dd, dq) in plain {
        cases.push(Cd { dd, dq, ..c0 });
    }
    // (a) roots on the evaluation coset
    let coset: &[(usize, isize, u8)] = if thorough {
        &[(512, 50, 1), (600, 300, 1), (512, 1, 2), (513, 50, 2), (700, 300, 2), (512, 512, 2), (512, 0, 1), (512, -1, 1)]
    } else {
        &[(512, 1, 2), (700, 300, 2), (512, 512, 2), (512, 0, 1), (512, -1, 1)]
    };
    for &(dd, dq, coset) in coset {
        cases.push(Cd { dd, dq, coset, ..c0 });
    }
    // (b) X^k * g, also combined with (a)
    for (dd, dq, k, coset) in [(512, 50, 1, 0), (512, 50, 2, 0), (600, 300, 3, 0), (513, 50, 1, 1), (512, 300, 2, 2), (512, 0, 1, 0)] {
        if !thorough && (dd, k, coset) == (513, 1, 1) {
            continue; // gen_f9_f11 has this shape already
        }
        cases.push(Cd { dd, dq, k, coset, ..c0 });
    }
    // (c) zero dividend
    for (k, zero_repr) in [(0, 0), (0, 1), (0, 3), (1, 0), (1, 1), (1, 3), (2, 0), (2, 1)] {
        cases.push(Cd { dd: 512 + rng.below(3) as usize, dq: -1, k, zero_repr, ..c0 });
    }
    // (d) stored leading zeros
    cases.push(Cd { dd: 512, dq: 50, pad_d: 2, ..c0 });
    if thorough {
        cases.push(Cd { dd: 512, dq: 50, pad_a: 3, ..c0 });
    }
    cases.push(Cd { dd: 600, dq: 1, pad_a: 1, pad_d: 5, k: 1, ..c0 });
    // (f) dividend degree 2^k - 1 / 2^k (order boundary), with and without X-removal
    for (dd, dq, k) in [(512, 511, 0), (512, 512, 0), (512, 512, 1), (512, 513, 1)] {
        cases.push(Cd { dd, dq, k, ..c0 });
    }
    if thorough {
        for (dd, dq, k, coset) in [(1024, 1023, 0, 0), (1024, 1024, 0, 0), (1024, 1024, 1, 2), (1024, 1025, 1, 0), (1100, 2900, 0, 0), (1100, 2996, 2, 2), (1024, 3072, 0, 1), (2048, 100, 0, 0)] {
            cases.push(Cd { dd, dq, k, coset, ..c0 });
        }
        for _ in 0..150 {
            let dd = match rng.below(4) {
                0 => 512 + rng.below(4) as usize,
                1 => 1024 + rng.below(77) as usize,
                _ => 512 + rng.below(589) as usize,
            };
            let dq = match rng.below(6) {
                0 => -1,
                1 => rng.below(3) as isize,
                2 => {
                    // dividend degree at a power of two
                    let t = *rng.pick(&[1024isize, 2048, 4096]) - rng.below(2) as isize;
                    if t >= dd as isize { t - dd as isize } else { 10 }
                }
                _ => rng.below((4000 - dd as u64).min(2000)) as isize,
            };
            cases.push(Cd {
                dd,
                dq,
                k: if rng.coin(1, 3) { 1 + rng.below(3) as usize } else { 0 },
                coset: if rng.coin(1, 3) { 1 + rng.below(2) as u8 } else { 0 },
                pad_a: if rng.coin(1, 5) { 1 + rng.below(4) as usize } else { 0 },
                pad_d: if rng.coin(1, 5) { 1 + rng.below(4) as usize } else { 0 },
                zero_repr: *rng.pick(&[0usize, 1, 3]),
            });
        }
    }
    for c in cases {
        let (a, d) = clean_case(rng, c);
        line_clean(out, &a, &d);
    }
}

// ---- stream 5: xgcd -------------------------------------------------------------------------------------
fn gen_xgcd<FF: Fld>(rng: &mut Rng, thorough: bool, out: &mut Vec<String>) {
    let zero_reprs: [usize; 4] = [0, 1, 2, 3];
    for &zx in &zero_reprs {
        for &zy in &[0usize, 2] {
            line2(out, "xgcd", &vec![FF::ZERO; zx], &vec![FF::ZERO; zy]);
        }
    }
    let n = if thorough { 2200 } else { 170 };
    for i in 0..n {
        let big = i % 12 == 0;
        let hi: u64 = if big { 61 } else { 13 };
        let (dx, dy) = (rng.below(hi) as isize, rng.below(hi) as isize);
        match rng.below(10) {
            0 => {
                // one side zero
                let z = vec![FF::ZERO; *rng.pick(&zero_reprs)];
                let p = rp::<FF>(dx, rng);
                if rng.coin(1, 2) { line2(out, "xgcd", &z, &p) } else { line2(out, "xgcd", &p, &z) }
            }
            1 => {
                // equal (possibly differently stored)
                let p = rp_exact::<FF>(dx, rng);
                let q = stored(p.clone(), rng);
                line2(out, "xgcd", &p, &q);
            }
            2 => {
                // one a multiple of the other
                let p = rp_exact::<FF>(dx.min(8), rng);
                let m = sb_mul(&p, &rp_exact::<FF>(dy.min(8), rng));
                let (p, m) = (stored(p, rng), stored(m, rng));
                if rng.coin(1, 2) { line2(out, "xgcd", &p, &m) } else { line2(out, "xgcd", &m, &p) }
            }
            3 | 4 | 5 => {
                // common factor g of degree 1..5
                let g = rp_exact::<FF>(1 + rng.below(5) as isize, rng);
                let x = stored(sb_mul(&g, &rp_exact::<FF>(dx, rng)), rng);
                let y = stored(sb_mul(&g, &rp_exact::<FF>(dy, rng)), rng);
                line2(out, "xgcd", &x, &y);
            }
            6 => {
                // constants
                let c = rp::<FF>(0, rng);
                let p = rp::<FF>(if rng.coin(1, 2) { 0 } else { dx }, rng);
                if rng.coin(1, 2) { line2(out, "xgcd", &c, &p) } else { line2(out, "xgcd", &p, &c) }
            }
            7 => {
                // repeated factor / powers of X
                let g = rp_exact::<FF>(1 + rng.below(2) as isize, rng);
                let g2 = sb_mul(&g, &g);
                let x = shifted(&sb_mul(&g2, &rp_exact::<FF>(dx.min(6), rng)), rng.below(3) as usize);
                let y = shifted(&sb_mul(&g, &rp_exact::<FF>(dy.min(6), rng)), rng.below(3) as usize);
                line2(out, "xgcd", &x, &y);
            }
            _ => {
                // random (coprime with overwhelming probability for uniform coefficients)
                let (x, y) = (rp::<FF>(dx, rng), rp::<FF>(dy, rng));
                line2(out, "xgcd", &x, &y);
            }
        }
    }
    if thorough {
        for _ in 0..12 {
            let (dx, dy) = (100 + rng.below(200) as isize, 100 + rng.below(200) as isize);
            let g = rp_exact::<FF>(rng.below(6) as isize, rng);
            let x = sb_mul(&g, &rp_exact::<FF>(dx, rng));
            let y = sb_mul(&g, &rp_exact::<FF>(dy, rng));
            line2(out, "xgcd", &x, &y);
        }
    }
}

// ---- stream 6: formal power series inverse ---------------------------------------------------------------
/// invertible series of exact degree dp
fn rseries<FF: Fld>(dp: usize, rng: &mut Rng) -> Vec<FF> {
    let mut p = rp_exact::<FF>(dp as isize, rng);
    while p[0] == FF::ZERO {
        p[0] = FF::rnd(rng, 0);
    }
    p
}
/// length of the final NTT domain of `formal_power_series_inverse_newton` (0 when the NTT arm is not reached)
fn fps_full(dp: usize, n: usize) -> usize {
    if dp == 0 {
        return 0;
    }
    let num_rounds = n.next_power_of_two().ilog2();
    let cutoff = th().fps_cutoff as usize;
    let switch_point = if cutoff < dp { 0 } else { (cutoff / dp).ilog2() };
    if switch_point >= num_rounds {
        return 0;
    }
    ((1usize << (num_rounds + 1)) * dp).next_power_of_two()
}
fn gen_fps<FF: Fld>(rng: &mut Rng, thorough: bool, out: &mut Vec<String>) {
    let is_b = FF::TAG == "b";
    // quick tier: the model's cost is dominated by the final NTT domain; bound it (see the three explicit lines below)
    let limit = if thorough { usize::MAX } else if is_b { 16384 } else { 4096 };
    let ok = |dp: usize, n: usize| fps_full(dp, n) <= limit;
    let small_degs = [0usize, 1, 2, 3, 8, 16];
    let big_degs = [100usize, 128, 129, 255, 256, 257];
    for n in 0..=40usize {
        for &dp in &small_degs {
            if !thorough && !is_b && !rng.coin(1, 3) {
                continue;
            }
            if !ok(dp, n) {
                continue;
            }
            let p = stored(rseries::<FF>(dp, rng), rng);
            line1n(out, "fps_newton", &p, n);
        }
        let few = [0usize, 1, 2, 3, 4, 5, 8, 9, 16, 17, 32, 33, 40].contains(&n);
        for &dp in &big_degs {
            let keep = if thorough { is_b || few } else { is_b && few && rng.coin(1, 2) };
            if keep && ok(dp, n) {
                let p = stored(rseries::<FF>(dp, rng), rng);
                line1n(out, "fps_newton", &p, n);
            }
        }
    }
    for n in [63usize, 64, 65, 127, 128, 129, 255, 256, 257, 300] {
        for &dp in &small_degs {
            if !thorough && (!is_b || dp == 0) && !rng.coin(1, 4) {
                continue;
            }
            if !ok(dp, n) {
                continue;
            }
            let p = stored(rseries::<FF>(dp, rng), rng);
            line1n(out, "fps_newton", &p, n);
        }
        if thorough || is_b {
            // the NTT arm's final domain is 2^(rounds+1) * deg P: keep these few in the quick tier
            let picks = if thorough { big_degs.to_vec() } else { vec![*rng.pick(&big_degs)] };
            for dp in picks {
                if !ok(dp, n) {
                    continue;
                }
                let p = rseries::<FF>(dp, rng);
                line1n(out, "fps_newton", &p, n);
            }
        }
    }
    if !thorough {
        // the only quick-tier lines above the limit: b: final domain 32768 and 524288; x: 8192
        let above: &[(usize, usize)] = if is_b { &[(257, 32), (257, 300)] } else { &[(16, 256)] };
        for &(dp, n) in above {
            let p = rseries::<FF>(dp, rng);
            line1n(out, "fps_newton", &p, n);
        }
        // big precisions with small degrees, big degrees with small precisions (all within the limit)
        for _ in 0..(if is_b { 30 } else { 10 }) {
            let (dp, n) = if rng.coin(1, 2) {
                (1 + rng.below(16) as usize, *rng.pick(&[63usize, 64, 65, 127, 128, 129, 255, 256, 257, 300]))
            } else {
                (*rng.pick(&[100usize, 127, 128, 129, 255, 256, 257]), rng.below(18) as usize)
            };
            if ok(dp, n) {
                let p = stored(rseries::<FF>(dp, rng), rng);
                line1n(out, "fps_newton", &p, n);
            }
        }
    }
    // switch point boundaries: deg P around 256 / 2^j, precision around 2^(j +- 1)
    let n = if thorough { 200 } else if is_b { 24 } else { 6 };
    for _ in 0..n {
        let j = 1 + rng.below(6) as u32;
        let dp = ((256usize >> j) as isize + rng.below(3) as isize - 1).max(1) as usize;
        let nn = ((1usize << rng.range(j.saturating_sub(1) as u64, j as u64 + 1)) as isize + rng.below(3) as isize - 1).max(0) as usize;
        if !ok(dp, nn) {
            continue;
        }
        let p = stored(rseries::<FF>(dp, rng), rng);
        line1n(out, "fps_newton", &p, nn);
    }
    // non-invertible: zero / empty / zero constant term (panic); stored leading zeros
    let n = if thorough { 40 } else { 5 };
    for _ in 0..n {
        let prec = rng.below(20) as usize;
        line1n(out, "fps_newton", &vec![FF::ZERO; *rng.pick(&[0usize, 1, 3])], prec);
        let mut p = rp::<FF>(1 + rng.below(12) as isize, rng);
        p[0] = FF::ZERO;
        line1n(out, "fps_newton", &p, prec);
        let p = padded(rseries::<FF>(rng.below(12) as usize, rng), 1 + rng.below(5) as usize);
        line1n(out, "fps_newton", &p, prec);
        // constants incl. stored zeros
        let p = padded(rseries::<FF>(0, rng), rng.below(3) as usize);
        line1n(out, "fps_newton", &p, prec);
    }
    if thorough {
        let degs: &[usize] = if is_b { &[1, 3, 16, 100, 129, 257] } else { &[2, 128] };
        for &dp in degs {
            let p = rseries::<FF>(dp, rng);
            for n in 0..=300usize {
                if dp >= 100 && n > 64 && n % 8 > 1 {
                    continue;
                }
                line1n(out, "fps_newton", &p, n);
            }
        }
        if is_b {
            for n in [511usize, 512, 513, 1000, 1023, 1024, 1025, 2000] {
                for dp in [1usize, 16, 129, 300] {
                    if n >= 1025 && dp >= 129 && n != 2000 {
                        continue;
                    }
                    let p = rseries::<FF>(dp, rng);
                    line1n(out, "fps_newton", &p, n);
                }
            }
        } else {
            for (dp, n) in [(1usize, 512usize), (16, 1000), (3, 2000)] {
                let p = rseries::<FF>(dp, rng);
                line1n(out, "fps_newton", &p, n);
            }
        }
    }
}

// ---- stream 7: mod_x_to_the_n / truncate -----------------------------------------------------------------
fn gen_trunc<FF: Fld>(rng: &mut Rng, thorough: bool, out: &mut Vec<String>) {
    let n = if thorough { 500 } else { 40 };
    for i in 0..n {
        let p = match rng.below(6) {
            0 => vec![FF::ZERO; *rng.pick(&[0usize, 1, 3])],
            1 => padded(rp_exact::<FF>(rng.below(10) as isize, rng), 1 + rng.below(5) as usize),
            _ => rp::<FF>(rng.below(if i % 10 == 0 { 120 } else { 14 }) as isize, rng),
        };
        let len = p.len();
        let cands = [0usize, 1, len.saturating_sub(1), len, len + 1, 1000, deg(&p).max(0) as usize, (deg(&p) + 1) as usize, usize::MAX - 1, usize::MAX];
        let k = *rng.pick(&cands);
        line1n(out, if rng.coin(1, 2) { "mod_x_n" } else { "truncate" }, &p, k);
        if i % 8 == 0 {
            for &k in &cands {
                line1n(out, if rng.coin(1, 2) { "mod_x_n" } else { "truncate" }, &p, k);
            }
        }
    }
}

pub fn gen(rng: &mut Rng, thorough: bool, out: &mut Vec<String>) {
    let _ = th();
    gen_f9_f11(rng, out);
    gen_divide::<BFieldElement>(rng, thorough, out);
    gen_divide::<XFieldElement>(rng, thorough, out);
    gen_reduce::<BFieldElement>(rng, thorough, out);
    gen_reduce::<XFieldElement>(rng, thorough, out);
    gen_struct_mult::<BFieldElement>(rng, thorough, out);
    gen_struct_mult::<XFieldElement>(rng, thorough, out);
    gen_clean(rng, thorough, out);
    gen_xgcd::<BFieldElement>(rng, thorough, out);
    gen_xgcd::<XFieldElement>(rng, thorough, out);
    gen_fps::<BFieldElement>(rng, thorough, out);
    gen_fps::<XFieldElement>(rng, thorough, out);
    gen_trunc::<BFieldElement>(rng, thorough, out);
    gen_trunc::<XFieldElement>(rng, thorough, out);
}
