// PROP: C15  FAMILIES:
//! C15 companion stream: `Tip5::hash(&value)` (the generic entry point over `BFieldCodec`) must be *variable-length*
//! hashing of the value's encoding for every type — in particular for types whose static length equals the sponge rate
//! (10), the digest length (5) or the state size (16), where a fixed-length shortcut would make the two domains collide.
//! The ops are `codec enc <type> <value>` lines of the C03 family: the C03 runner evaluates the oracle
//! `Tip5::hash(v) == Tip5::hash_varlen(encode v)` on the implementation, and the Lean driver answers them as usual.
use crate::registry::c03;
use crate::util::*;

pub fn gen(rng: &mut Rng, thorough: bool, out: &mut Vec<String>) {
    let n = if thorough { 40 } else { 4 };
    for (d, e) in c03::all_entries() {
        // statically sized types only, of length 1..=20 (around RATE = 10, DIGEST_LEN = 5, STATE_SIZE = 16)
        let Some(sl) = (e.slen)() else { continue };
        if sl == 0 || sl > 20 {
            continue;
        }
        for _ in 0..n {
            let mut budget = 40;
            let v = c03::gen_val(&e.desc, rng, &mut budget);
            out.push(format!("codec enc {} {}", d, v.fmt()));
        }
    }
}
