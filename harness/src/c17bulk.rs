// PROP: C07 C17  FAMILIES:
//! C07 / C17 growth -- HISTORY op of family `polyv` (`c17.rs` falls through to `run_polyv_more` for the field tag `h`):
//! an object whose `degree()` (and everything that calls it: `is_zero`, `==`, `leading_coefficient`, `Display`) was
//! queried BEFORE an in-place mutation must answer for its NEW value afterwards.  The only in-place mutators of
//! `Polynomial` are `scalar_mul_mut` and `+=`; both are driven through degree-changing cases (scalar 0, a summand that
//! cancels the leading terms, a summand of higher degree, the negation) on owned, cloned and borrowed objects, over both
//! fields.  Expected coefficient vectors are computed here coefficient by coefficient; the model has no opinion (`skip`).
//!
//!   polyv hist h <seed> <max degree>     -> ok:<number of checked objects>
use crate::util::*;
use num_traits::{One, Zero};
use std::ops::MulAssign;
use twenty_first::math::traits::FiniteField;
use twenty_first::prelude::*;

fn strip<F: FiniteField>(c: &[F]) -> Vec<F> {
    let mut v = c.to_vec();
    while v.last().is_some_and(|x| x.is_zero()) {
        v.pop();
    }
    v
}

/// every observer, after the mutation, against the expected coefficient vector
fn observe<F: FiniteField + MulAssign<BFieldElement>>(p: &Polynomial<'static, F>, want: &[F], what: &str) -> Result<(), String> {
    let w = strip(want);
    let fresh = Polynomial::new(want.to_vec());
    let deg: isize = w.len() as isize - 1;
    if p.degree() != deg {
        return Err(format!("{what}: degree() = {} but the coefficients now have degree {}", p.degree(), deg));
    }
    if p.is_zero() != w.is_empty() {
        return Err(format!("{what}: is_zero() = {} for a polynomial of degree {}", p.is_zero(), deg));
    }
    if p.leading_coefficient() != w.last().copied() {
        return Err(format!("{what}: leading_coefficient() is not the highest non-zero coefficient"));
    }
    if p.coefficients() != &w[..] {
        return Err(format!("{what}: coefficients() differ from the expected coefficients"));
    }
    if *p != fresh || fresh != *p {
        return Err(format!("{what}: the mutated object is != a fresh polynomial with the same coefficients"));
    }
    if p.clone().into_coefficients() != w {
        return Err(format!("{what}: into_coefficients() of a clone differs"));
    }
    if w.is_empty() != (*p == Polynomial::zero()) {
        return Err(format!("{what}: comparison with Polynomial::zero() wrong"));
    }
    // arithmetic on the mutated object uses the new value
    let x = Polynomial::new(vec![F::ONE, F::ONE]);
    let prod = p.clone().multiply(&x);
    let want_prod = fresh.multiply(&x);
    let want_deg: isize = if w.is_empty() { -1 } else { deg + 1 };
    if prod != want_prod || prod.degree() != want_deg {
        return Err(format!("{what}: (p * (x+1)) computed from the mutated object is wrong"));
    }
    Ok(())
}

fn query<F: FiniteField>(p: &Polynomial<'static, F>, how: u64) {
    match how % 5 {
        0 => { let _ = p.degree(); }
        1 => { let _ = p.is_zero(); }
        2 => { let _ = p.leading_coefficient(); }
        3 => { let _ = p.is_one(); let _ = p.is_x(); }
        _ => { let _ = p.degree(); let _ = p.to_string(); }
    }
}

fn hist_f<F>(r: &mut Rng, maxd: usize, mk: &dyn Fn(&mut Rng) -> F, st: &mut Stats) -> Result<u32, String>
where
    F: FiniteField + MulAssign<F> + MulAssign<BFieldElement> + 'static,
{
    let mut n = 0u32;
    let nz = |r: &mut Rng| loop { let v = mk(r); if !v.is_zero() { return v; } };
    for round in 0..24u64 {
        let d = match round % 6 { 0 => 0, 1 => 1, 2 => maxd, _ => r.below(maxd as u64 + 1) as usize };
        let k = *r.pick(&[0usize, 0, 1, 3]);
        let mut c: Vec<F> = (0..=d).map(|i| if i == d { nz(r) } else { mk(r) }).collect();
        c.extend(std::iter::repeat(F::ZERO).take(k));
        // ---- scalar_mul_mut, queried before
        for s in [F::ZERO, F::ONE, nz(r)] {
            let mut p = Polynomial::new(c.clone());
            query(&p, r.next());
            p.scalar_mul_mut(s);
            let want: Vec<F> = c.iter().map(|&x| x * s).collect();
            st.hit(if s.is_zero() { "hist:scalar_mul_mut(0) after a degree query" } else { "hist:scalar_mul_mut(s!=0) after a degree query" });
            observe(&p, &want, &format!("scalar_mul_mut({}) on a polynomial of degree {} whose degree was queried before", if s.is_zero() { "0" } else { "s" }, d))?;
            n += 1;
            // again on the same object: 0 after s, s after 0
            p.scalar_mul_mut(F::ZERO);
            observe(&p, &vec![F::ZERO; c.len()], "scalar_mul_mut(0) applied to an object that was mutated and observed before")?;
            p += Polynomial::new(c.clone());
            observe(&p, &c, "`+= q` on an object zeroed by scalar_mul_mut(0)")?;
            n += 2;
        }
        // clone taken after the query, mutated; the original keeps its value
        {
            let p1 = Polynomial::new(c.clone());
            query(&p1, r.next());
            let mut p2 = p1.clone();
            p2.scalar_mul_mut(F::ZERO);
            observe(&p2, &vec![F::ZERO; c.len()], "scalar_mul_mut(0) on a clone of a queried polynomial")?;
            observe(&p1, &c, "original after its clone was zeroed")?;
            let leaked: &'static [F] = Box::leak(c.clone().into_boxed_slice());
            let mut p3 = Polynomial::new_borrowed(leaked);
            query(&p3, r.next());
            p3.scalar_mul_mut(F::ZERO);
            observe(&p3, &vec![F::ZERO; c.len()], "scalar_mul_mut(0) on a borrowed polynomial whose degree was queried before")?;
            n += 3;
        }
        // ---- `+=`, queried before: cancel the t highest terms / exceed the degree / negate everything
        for case in 0..4u64 {
            let q: Vec<F> = match case {
                0 => { let t = 1 + r.below(d as u64 + 1) as usize; (0..=d).map(|i| if i + t > d { -c[i] } else { mk(r) }).collect() }
                1 => (0..=d + 1 + r.below(3) as usize).map(|_| nz(r)).collect(),
                2 => c.iter().map(|&x| -x).collect(),
                _ => (0..=r.below(d as u64 + 1) as usize).map(|_| mk(r)).collect(),
            };
            let len = c.len().max(q.len());
            let want: Vec<F> = (0..len).map(|i| c.get(i).copied().unwrap_or(F::ZERO) + q.get(i).copied().unwrap_or(F::ZERO)).collect();
            let mut p = if case == 3 { Polynomial::new_borrowed(Box::leak(c.clone().into_boxed_slice()) as &'static [F]) } else { Polynomial::new(c.clone()) };
            query(&p, r.next());
            let qp = Polynomial::new(q.clone());
            query(&qp, r.next());
            p += qp;
            st.hit(["hist:+= cancelling leading terms", "hist:+= raising the degree", "hist:+= the negation", "hist:+= lower degree (borrowed)"][case as usize]);
            observe(&p, &want, &format!("`+=` (case {}) on a polynomial of degree {} whose degree was queried before", case, d))?;
            p.scalar_mul_mut(F::ZERO);
            observe(&p, &vec![F::ZERO; len], "scalar_mul_mut(0) after `+=`")?;
            n += 2;
        }
    }
    Ok(n)
}

pub fn run_polyv_more(op: &str, args: &[Arg], st: &mut Stats) -> Option<Out> {
    match (op, args) {
        ("hist", [tag, seed, maxd]) if tag.sym()? == "h" => {
            let (seed, maxd) = (seed.u64()?, maxd.usize()?);
            if maxd > 4096 { return None; }
            let mut r = Rng::new(seed);
            let rb = hist_f::<BFieldElement>(&mut r, maxd, &|r| if r.coin(1, 6) { BFieldElement::new(0) } else { r.bfe() }, st);
            let rx = hist_f::<XFieldElement>(&mut r, maxd, &|r| r.xfe(), st);
            Some(match (rb, rx) {
                (Ok(a), Ok(b)) => Out::ok(format!("ok:{}", a + b)),
                (Err(e), _) => Out::ok("ok:fail").with_oracle(false, format!("BFieldElement: {e}")),
                (_, Err(e)) => Out::ok("ok:fail").with_oracle(false, format!("XFieldElement: {e}")),
            })
        }
        _ => None,
    }
}

pub fn gen(rng: &mut Rng, thorough: bool, out: &mut Vec<String>) {
    for &d in (if thorough { &[0usize, 1, 2, 3, 7, 8, 31, 64, 100, 255, 256, 257, 600, 1025][..] } else { &[0usize, 1, 3, 8, 33, 300][..] }) {
        out.push(format!("polyv hist h {} {}", rng.next(), d));
    }
}
