// PROP: C14  FAMILIES: derive=run_derive
// FEATURE: derive_corpus
//! C14 -- the repository's derive macro generates a correct, layout-compatible codec.  Family `derive`.
//!
//!   derive enc  <Name> <ty> <val>    -> ok:[elements]
//!   derive dec  <Name> <ty> [seq]    -> ok:<val> | err | panic
//!   derive slen <Name> <ty>          -> ok:none | ok:some:N
//!
//! `<Name>` selects a corpus instance. Every corpus type is defined twice from the same tokens (`twin!`): in module
//! `ws` deriving the **workspace** macro (`/repo/bfieldcodec_derive`, path dependency) and in module `reg` deriving the
//! **registry 0.7.1** macro the library itself is compiled with. Each op runs on both twins; they must agree bit for
//! bit with each other (oracle on the implementation) and with the model's `struct`/`enum` constructors (reply).
//! The other oracles are those of C03/C13: decode(encode v) == v (ignored fields are defaulted, they are not part of
//! the value), accepted sequence re-encodes to itself, static length, never panics.
use crate::util::*;
use std::collections::BTreeMap;
use std::marker::PhantomData;
use std::sync::OnceLock;

use super::c03::{self, entry, TyDesc, TypeEntry, Val, ValConv};

/// the same item tokens, once per macro version
macro_rules! twin {
    ($ws:ident, $reg:ident; $($item:item)*) => {
        pub mod $ws {
            #![allow(dead_code)]
            // the derive macro under a name of its own: `twenty_first::prelude::BFieldCodec` also re-exports a macro
            use bfieldcodec_derive_ws::BFieldCodec as DeriveWorkspace;
            use std::marker::PhantomData;
            use twenty_first::prelude::*;
            $( #[derive(DeriveWorkspace)] $item )*
        }
        pub mod $reg {
            #![allow(dead_code)]
            use bfieldcodec_derive_reg::BFieldCodec as DeriveRegistry;
            use std::marker::PhantomData;
            use twenty_first::prelude::*;
            $( #[derive(DeriveRegistry)] $item )*
        }
    };
}

// ---------------------------------------------------------------------------------------------------------------
// the corpus: the shape grammar of the macro
// ---------------------------------------------------------------------------------------------------------------
twin! { ws, reg;
    // --- unit struct
    pub struct U0;
    // --- named-field structs: static, dynamic first/last/all, empty, ignored fields, library types, nesting
    pub struct N1 { pub a: u32 }
    pub struct N2 { pub a: u32, pub b: u64 }
    pub struct N3 { pub a: Vec<u32>, pub b: u8 }
    pub struct N4 { pub a: u8, pub b: Vec<u32> }
    pub struct N5 { pub a: Vec<u8>, pub b: Option<u16>, pub c: Vec<Vec<u8>> }
    pub struct N6 {}
    pub struct N7 { pub a: u32, #[bfield_codec(ignore)] pub cache: u64 }
    pub struct N8 {
        #[bfield_codec(ignore)] pub x: Vec<u8>,
        pub a: Vec<u8>,
        #[bfield_codec(ignore)] pub y: bool,
        pub b: bool,
    }
    pub struct N9 { #[bfield_codec(ignore)] pub only: u32 }
    pub struct N10 { pub d: Digest, pub x: XFieldElement, pub p: Polynomial<'static, BFieldElement> }
    pub struct N11 { pub inner: N3, pub more: Vec<N2>, pub opt: Option<N7> }
    pub struct N12 { pub t: (u8, Vec<u16>), pub arr: [u32; 3], pub bx: Box<u64>, pub ph: PhantomData<u8> }
    pub struct N13 { pub a: u128, pub b: bool, pub c: BFieldElement, pub d: u16, pub e: u8, pub f: [u64; 2] }
    // --- tuple structs
    pub struct T1(pub u64);
    pub struct T2(pub u32, pub Vec<u8>);
    pub struct T3(pub Vec<u8>, pub u32, pub Vec<u16>);
    pub struct T4();
    pub struct T5(pub N3, pub T2, pub U0);
    pub struct T6(pub PhantomData<u8>, pub PhantomData<u16>);
    // --- generics: plain, with bounds, where clause, parameter used only in an ignored field, const parameter,
    //     lifetime parameter
    pub struct G1<T>(pub T, pub (T, T));
    pub struct G2<T> { pub a: T, pub b: (T, T), #[bfield_codec(ignore)] pub i: bool }
    pub struct G3<T: Clone + std::fmt::Debug> { pub a: Vec<T> }
    pub struct G4<T, U> where T: Clone, U: Default { pub a: T, pub b: Option<U> }
    pub struct G5<T, I: Default> { pub a: T, #[bfield_codec(ignore)] pub i: I }
    pub struct G6<T, const N: usize> { pub a: [T; N] }
    pub struct G7<'a, T> { pub a: T, #[bfield_codec(ignore)] pub r: PhantomData<&'a ()> }
    // --- enums: unit only, mixed, uniform widths, dynamic, nested, generic, zero-width payload
    pub enum E1 { A }
    pub enum E2 { A, B, C }
    pub enum E3 { A, B(u32) }
    pub enum E4 { A(u32), B(u32) }
    pub enum E5 { A(u64), B(u32, u32), C([u8; 2]) }
    pub enum E6 { A(Vec<u8>), B }
    pub enum E7 { A(u8, Vec<u8>, u16), B(Option<u8>), C, D(N3) }
    pub enum E8<T> { A, B(T), C(T, T) }
    pub enum E9 { A(PhantomData<u8>), B }
    pub enum E10 { A(E2), B(E4) }
    pub enum E11 { A(Box<E2>), B(Vec<E3>) }
    pub enum E12 { A(N2), B(u32, u64), C(T1, u32) }
    pub enum E13 { A(u64), B(u8) }
    pub enum E14 { A(u32), B, C(u32) }
    pub enum E15 { A(u32, u32), B(u64), C(u8, u8, u8) }
    // --- enums with explicit discriminants that differ from the variant positions (the codec's variant index is the
    //     position, never the discriminant): field-less, and with payloads under a primitive representation
    pub enum E16 { A = 16, B, C = 3 }
    #[repr(u32)] pub enum E17 { A(u32) = 7, B = 2, C(u8, Vec<u8>) }
    #[repr(u8)] pub enum E18 { A = 1, B(u64) = 0 }
}

/// the two twins really come from different macro versions: only the registry 0.7.1 macro generates this variant
#[allow(dead_code)]
fn registry_twin_is_0_7_1(e: &reg::N1BFieldDecodingError) -> bool {
    matches!(e, reg::N1BFieldDecodingError::TryFromIntError(_))
}

// ---------------------------------------------------------------------------------------------------------------
// ValConv for the corpus (written once, instantiated for both modules)
// ---------------------------------------------------------------------------------------------------------------
/// named struct: included fields in declaration order; ignored fields are defaulted and not part of the value
macro_rules! vc_named {
    ([$($g:tt)*] $t:ty, $ctor:ident { $($f:ident : $ft:ty),* } ignored { $($ig:ident),* }) => {
        impl<$($g)*> ValConv for $t {
            fn ty() -> TyDesc { TyDesc::Struct(vec![$(<$ft as ValConv>::ty()),*]) }
            fn to_val(&self) -> Val { Val::List(vec![$(self.$f.to_val()),*]) }
            #[allow(unused_variables, unused_mut, unused_assignments)]
            fn from_val(v: &Val) -> Option<Self> {
                let Val::List(l) = v else { return None };
                let mut i = 0;
                $( let $f = <$ft as ValConv>::from_val(l.get(i)?)?; i += 1; )*
                if l.len() != i { return None; }
                Some($ctor { $($f,)* $($ig: Default::default(),)* })
            }
        }
    };
}
/// tuple struct
macro_rules! vc_tuple {
    ([$($g:tt)*] $t:ty, $ctor:ident ( $($i:tt : $ft:ty),* )) => {
        impl<$($g)*> ValConv for $t {
            fn ty() -> TyDesc { TyDesc::Struct(vec![$(<$ft as ValConv>::ty()),*]) }
            fn to_val(&self) -> Val { Val::List(vec![$(self.$i.to_val()),*]) }
            #[allow(unused_variables, unused_mut, unused_assignments)]
            fn from_val(v: &Val) -> Option<Self> {
                let Val::List(l) = v else { return None };
                let n = 0usize $(+ { let _ = $i; 1 })*;
                if l.len() != n { return None; }
                Some($ctor ( $(<$ft as ValConv>::from_val(&l[$i])?,)* ))
            }
        }
    };
}
/// enum: `k => Variant(x0: T0, x1: T1)`; unit variants are written `k => Variant()`
macro_rules! vc_enum {
    ([$($g:tt)*] $t:ty, $e:ident :: { $($k:literal => $v:ident ( $($x:ident : $ft:ty),* )),* }) => {
        impl<$($g)*> ValConv for $t {
            fn ty() -> TyDesc { TyDesc::Enum(vec![$(vec![$(<$ft as ValConv>::ty()),*]),*]) }
            #[allow(unused_variables)]
            fn to_val(&self) -> Val {
                match self {
                    $( vc_enum!(@pat $e $v ( $($x),* )) => Val::Variant($k, vec![$($x.to_val()),*]), )*
                }
            }
            #[allow(unused_variables, unused_mut, unused_assignments)]
            fn from_val(v: &Val) -> Option<Self> {
                let Val::Variant(k, l) = v else { return None };
                match *k {
                    $( $k => {
                        let mut i = 0;
                        $( let $x = <$ft as ValConv>::from_val(l.get(i)?)?; i += 1; )*
                        if l.len() != i { return None; }
                        Some(vc_enum!(@pat $e $v ( $($x),* )))
                    } )*
                    _ => None,
                }
            }
        }
    };
    (@pat $e:ident $v:ident ()) => { $e::$v };
    (@pat $e:ident $v:ident ($($x:ident),+)) => { $e::$v($($x),+) };
}

macro_rules! corpus_valconv {
    ($m:ident) => {
        mod $m {
            #![allow(non_snake_case)]
            use super::super::{c03::{TyDesc, Val, ValConv}, PhantomData};
            use super::super::$m::*;
            use twenty_first::prelude::*;
            vc_tuple!([] U0, U0_());
            vc_named!([] N1, N1 { a: u32 } ignored {});
            vc_named!([] N2, N2 { a: u32, b: u64 } ignored {});
            vc_named!([] N3, N3 { a: Vec<u32>, b: u8 } ignored {});
            vc_named!([] N4, N4 { a: u8, b: Vec<u32> } ignored {});
            vc_named!([] N5, N5 { a: Vec<u8>, b: Option<u16>, c: Vec<Vec<u8>> } ignored {});
            vc_named!([] N6, N6 {} ignored {});
            vc_named!([] N7, N7 { a: u32 } ignored { cache });
            vc_named!([] N8, N8 { a: Vec<u8>, b: bool } ignored { x, y });
            vc_named!([] N9, N9 {} ignored { only });
            vc_named!([] N10, N10 { d: Digest, x: XFieldElement, p: Polynomial<'static, BFieldElement> } ignored {});
            vc_named!([] N11, N11 { inner: N3, more: Vec<N2>, opt: Option<N7> } ignored {});
            vc_named!([] N12, N12 { t: (u8, Vec<u16>), arr: [u32; 3], bx: Box<u64>, ph: PhantomData<u8> } ignored {});
            vc_named!([] N13, N13 { a: u128, b: bool, c: BFieldElement, d: u16, e: u8, f: [u64; 2] } ignored {});
            vc_tuple!([] T1, T1(0: u64));
            vc_tuple!([] T2, T2(0: u32, 1: Vec<u8>));
            vc_tuple!([] T3, T3(0: Vec<u8>, 1: u32, 2: Vec<u16>));
            vc_tuple!([] T4, T4());
            vc_tuple!([] T5, T5(0: N3, 1: T2, 2: U0));
            vc_tuple!([] T6, T6(0: PhantomData<u8>, 1: PhantomData<u16>));
            vc_tuple!([T: ValConv] G1<T>, G1(0: T, 1: (T, T)));
            vc_named!([T: ValConv] G2<T>, G2 { a: T, b: (T, T) } ignored { i });
            vc_named!([T: ValConv + Clone + std::fmt::Debug] G3<T>, G3 { a: Vec<T> } ignored {});
            vc_named!([T: ValConv + Clone, U: ValConv + Default] G4<T, U>, G4 { a: T, b: Option<U> } ignored {});
            vc_named!([T: ValConv, I: Default] G5<T, I>, G5 { a: T } ignored { i });
            vc_named!([T: ValConv, const N: usize] G6<T, N>, G6 { a: [T; N] } ignored {});
            vc_named!(['a, T: ValConv] G7<'a, T>, G7 { a: T } ignored { r });
            vc_enum!([] E1, E1::{ 0 => A() });
            vc_enum!([] E2, E2::{ 0 => A(), 1 => B(), 2 => C() });
            vc_enum!([] E3, E3::{ 0 => A(), 1 => B(x0: u32) });
            vc_enum!([] E4, E4::{ 0 => A(x0: u32), 1 => B(x0: u32) });
            vc_enum!([] E5, E5::{ 0 => A(x0: u64), 1 => B(x0: u32, x1: u32), 2 => C(x0: [u8; 2]) });
            vc_enum!([] E6, E6::{ 0 => A(x0: Vec<u8>), 1 => B() });
            vc_enum!([] E7, E7::{ 0 => A(x0: u8, x1: Vec<u8>, x2: u16), 1 => B(x0: Option<u8>), 2 => C(), 3 => D(x0: N3) });
            vc_enum!([T: ValConv] E8<T>, E8::{ 0 => A(), 1 => B(x0: T), 2 => C(x0: T, x1: T) });
            vc_enum!([] E9, E9::{ 0 => A(x0: PhantomData<u8>), 1 => B() });
            vc_enum!([] E10, E10::{ 0 => A(x0: E2), 1 => B(x0: E4) });
            vc_enum!([] E11, E11::{ 0 => A(x0: Box<E2>), 1 => B(x0: Vec<E3>) });
            vc_enum!([] E12, E12::{ 0 => A(x0: N2), 1 => B(x0: u32, x1: u64), 2 => C(x0: T1, x1: u32) });
            vc_enum!([] E13, E13::{ 0 => A(x0: u64), 1 => B(x0: u8) });
            vc_enum!([] E14, E14::{ 0 => A(x0: u32), 1 => B(), 2 => C(x0: u32) });
            vc_enum!([] E15, E15::{ 0 => A(x0: u32, x1: u32), 1 => B(x0: u64), 2 => C(x0: u8, x1: u8, x2: u8) });
            vc_enum!([] E16, E16::{ 0 => A(), 1 => B(), 2 => C() });
            vc_enum!([] E17, E17::{ 0 => A(x0: u32), 1 => B(), 2 => C(x0: u8, x1: Vec<u8>) });
            vc_enum!([] E18, E18::{ 0 => A(), 1 => B(x0: u64) });
            /// constructor of the unit struct in tuple-struct clothing for `vc_tuple!`
            #[allow(non_snake_case)]
            fn U0_() -> U0 { U0 }
        }
    };
}
mod valconv {
    corpus_valconv!(ws);
    corpus_valconv!(reg);
}

// ---------------------------------------------------------------------------------------------------------------
// instances: name -> (workspace twin, registry twin)
// ---------------------------------------------------------------------------------------------------------------
macro_rules! instances {
    ($m:ident) => {{
        #[allow(unused_imports)]
        use $m::*;
        let v: Vec<(&'static str, TypeEntry)> = vec![
            ("U0", entry::<U0>()), ("N1", entry::<N1>()), ("N2", entry::<N2>()), ("N3", entry::<N3>()),
            ("N4", entry::<N4>()), ("N5", entry::<N5>()), ("N6", entry::<N6>()), ("N7", entry::<N7>()),
            ("N8", entry::<N8>()), ("N9", entry::<N9>()), ("N10", entry::<N10>()), ("N11", entry::<N11>()),
            ("N12", entry::<N12>()), ("N13", entry::<N13>()),
            ("T1", entry::<T1>()), ("T2", entry::<T2>()), ("T3", entry::<T3>()), ("T4", entry::<T4>()),
            ("T5", entry::<T5>()), ("T6", entry::<T6>()),
            ("G1.u32", entry::<G1<u32>>()), ("G1.Vec.u8", entry::<G1<Vec<u8>>>()),
            ("G2.u64", entry::<G2<u64>>()), ("G2.Option.u8", entry::<G2<Option<u8>>>()),
            ("G3.u16", entry::<G3<u16>>()), ("G3.Vec.u8", entry::<G3<Vec<u8>>>()),
            ("G4.u8.u8", entry::<G4<u8, u8>>()), ("G4.Vec.u8.u64", entry::<G4<Vec<u8>, u64>>()),
            ("G5.u32.String", entry::<G5<u32, String>>()), ("G5.Vec.u8.unit", entry::<G5<Vec<u8>, ()>>()),
            ("G6.u16.3", entry::<G6<u16, 3>>()), ("G6.Vec.u8.2", entry::<G6<Vec<u8>, 2>>()), ("G6.u8.0", entry::<G6<u8, 0>>()),
            ("G7.u8", entry::<G7<'static, u8>>()),
            ("E1", entry::<E1>()), ("E2", entry::<E2>()), ("E3", entry::<E3>()), ("E4", entry::<E4>()),
            ("E5", entry::<E5>()), ("E6", entry::<E6>()), ("E7", entry::<E7>()),
            ("E8.u32", entry::<E8<u32>>()), ("E8.Vec.u32", entry::<E8<Vec<u32>>>()), ("E8.E3", entry::<E8<E3>>()),
            ("E9", entry::<E9>()), ("E10", entry::<E10>()), ("E11", entry::<E11>()), ("E12", entry::<E12>()),
            ("E13", entry::<E13>()), ("E14", entry::<E14>()), ("E15", entry::<E15>()),
            ("E16", entry::<E16>()), ("E17", entry::<E17>()), ("E18", entry::<E18>()),
            ("Vec.E16", entry::<Vec<E16>>()), ("Tup.E17.E16", entry::<(E17, E16)>()), ("Option.E18", entry::<Option<E18>>()),
            ("Vec.E13", entry::<Vec<E13>>()), ("Tup.E14.u8", entry::<(E14, u8)>()), ("Arr.E15.2", entry::<[E15; 2]>()),
            // nesting of derived types inside the hand-written constructors
            ("Vec.N3", entry::<Vec<N3>>()), ("Vec.N2", entry::<Vec<N2>>()), ("Option.E7", entry::<Option<E7>>()),
            ("Tup.N2.E3", entry::<(N2, E3)>()), ("Vec.E4", entry::<Vec<E4>>()), ("Arr.E2.3", entry::<[E2; 3]>()),
            ("Vec.Tup.T2.E6", entry::<Vec<(T2, E6)>>()), ("Box.N11", entry::<Box<N11>>()),
            ("Vec.E5", entry::<Vec<E5>>()), ("Tup.E5.u8", entry::<(E5, u8)>()), ("Vec.G2.u64", entry::<Vec<G2<u64>>>()),
            ("Option.E8.E3", entry::<Option<E8<E3>>>()), ("Vec.E9", entry::<Vec<E9>>()),
            // derived types of static width 0 as list items: finding F10 reaches generated code the same way
            ("Vec.U0", entry::<Vec<U0>>()), ("Vec.N9", entry::<Vec<N9>>()), ("Arr.T6.2", entry::<[T6; 2]>()),
            ("Vec.N6", entry::<Vec<N6>>()), ("Vec.T4", entry::<Vec<T4>>()),
        ];
        v
    }};
}

// ---------------------------------------------------------------------------------------------------------------
// the random part of the corpus: written by `harness/build.rs` from VERIF_SEED (modules `rws` / `rreg`)
// ---------------------------------------------------------------------------------------------------------------
include!(concat!(env!("OUT_DIR"), "/c14_random.rs"));

pub struct Twin {
    pub name: &'static str,
    pub ws: TypeEntry,
    pub reg: TypeEntry,
}
pub fn twins() -> &'static (Vec<Twin>, BTreeMap<&'static str, usize>) {
    static R: OnceLock<(Vec<Twin>, BTreeMap<&'static str, usize>)> = OnceLock::new();
    R.get_or_init(|| {
        let mut a = instances!(ws);
        let mut b = instances!(reg);
        a.extend(random_instances!(rws));
        b.extend(random_instances!(rreg));
        let mut v = vec![];
        let mut idx = BTreeMap::new();
        for ((n1, e1), (n2, e2)) in a.into_iter().zip(b.into_iter()) {
            assert_eq!(n1, n2);
            assert_eq!(e1.desc, e2.desc, "twin descriptors differ for {}", n1);
            idx.insert(n1, v.len());
            v.push(Twin { name: n1, ws: e1, reg: e2 });
        }
        (v, idx)
    })
}

// ---------------------------------------------------------------------------------------------------------------
// generator and runner
// ---------------------------------------------------------------------------------------------------------------
pub fn gen(rng: &mut Rng, thorough: bool, out: &mut Vec<String>) {
    let (n_val, n_mut, n_bad) = if thorough { (600, 8, 150) } else { (8, 4, 5) };
    for t in &twins().0 {
        let d = t.ws.desc.fmt();
        let head = format!("{} {}", t.name, d);
        out.push(format!("derive slen {}", head));
        out.push(format!("derive dec {} []", head));
        for _ in 0..n_val {
            let mut budget = 30;
            let v = c03::gen_val(&t.ws.desc, rng, &mut budget);
            out.push(format!("derive enc {} {}", head, v.fmt()));
            let Some(seq) = c03::encode_with(&t.ws, &v) else { continue };
            out.push(format!("derive dec {} {}", head, fmt_list_u64(&seq)));
            for _ in 0..n_mut {
                let (m, _) = c03::mutate(&seq, rng);
                out.push(format!("derive dec {} {}", head, fmt_list_u64(&m)));
            }
            // discriminants and prefixes: every position of short encodings gets the boundary values
            if seq.len() <= 12 && rng.coin(1, 3) {
                for i in 0..seq.len() {
                    for s in [seq[i] + 1, 1 << 32, P - 1] {
                        let mut m = seq.clone();
                        m[i] = s % P;
                        out.push(format!("derive dec {} {}", head, fmt_list_u64(&m)));
                    }
                }
            }
        }
        for _ in 0..n_bad {
            out.push(format!("derive dec {} {}", head, fmt_list_u64(&c03::malformed(rng))));
        }
    }
}

pub fn run_derive(op: &str, args: &[Arg], st: &mut Stats) -> Option<Out> {
    let name = args.first()?.sym()?;
    let (tw, idx) = twins();
    let Some(&i) = idx.get(name) else { return Some(Out::ok("bad-request")) };
    let t = &tw[i];
    let d = TyDesc::parse(args.get(1)?)?;
    if d != t.ws.desc {
        // the op line must carry the descriptor the Rust type computes for itself
        return Some(Out::ok("bad-request"));
    }
    let both = [&t.ws, &t.reg];
    st.hit(match &d {
        TyDesc::Struct(fs) if fs.is_empty() => "shape:struct-0-fields",
        TyDesc::Struct(_) => "shape:struct",
        TyDesc::Enum(_) => "shape:enum",
        _ => "shape:nested-in-handwritten",
    });
    match (op, args.len()) {
        ("slen", 2) => Some(c03::run_slen(&both)),
        ("enc", 3) => {
            let v = Val::parse(&args[2])?;
            if let Val::Variant(k, _) = &v {
                st.hit(&format!("enum:variant={}", k));
            }
            Some(c03::run_enc(&both, &d, &v, st))
        }
        ("dec", 3) => {
            let seq = args[2].bfes()?;
            Some(c03::run_dec(&both, &d, &seq, st))
        }
        _ => None,
    }
}
