// PROP: C15  FAMILIES: sponge=run_sponge
//! C15 -- sponge discipline. Family `sponge`:
//!  (a) a *recording* sponge: the default trait method `Sponge::pad_and_absorb_all` is observed block by block without
//!      any permutation (`rec_pad`); oracle: blocks concatenate to input ++ [1] ++ 0^k with k < RATE minimal;
//!  (b) Tip5: `new`/`init`/`absorb`/`squeeze`/`hash_varlen`/`hash10`/`hash_pair` and whole histories (`hist`) of
//!      absorb / squeeze / sample_indices / sample_scalars / pad_and_absorb_all starting from a chosen state
//!      (`Tip5.state` is public), comparing every output and the final state. Oracles recompute sampling from
//!      explicit squeezes on a clone of the sponge.
use crate::util::*;
use twenty_first::prelude::*;
use twenty_first::util_types::sponge::{Domain, Sponge, RATE};

#[derive(Clone, Debug, Default)]
struct Recorder {
    blocks: Vec<[BFieldElement; RATE]>,
}
impl Sponge for Recorder {
    const RATE: usize = RATE;
    fn init() -> Self {
        Self::default()
    }
    fn absorb(&mut self, input: [BFieldElement; RATE]) {
        self.blocks.push(input);
    }
    fn squeeze(&mut self) -> [BFieldElement; RATE] {
        [BFieldElement::new(0); RATE]
    }
}

fn fmt_ll(v: &[Vec<u64>]) -> String {
    let s: Vec<String> = v.iter().map(|x| fmt_list_u64(x)).collect();
    format!("[{}]", s.join(","))
}
fn vals(xs: &[BFieldElement]) -> Vec<u64> {
    xs.iter().map(|x| x.value()).collect()
}
fn canon(a: &Arg) -> Option<Vec<BFieldElement>> {
    let v = a.u64s()?;
    if v.iter().any(|&x| x >= P) {
        return None;
    }
    Some(v.into_iter().map(BFieldElement::new).collect())
}
fn state(a: &Arg) -> Option<Tip5> {
    let v: [BFieldElement; 16] = canon(a)?.try_into().ok()?;
    Some(Tip5 { state: v })
}

/// reference sampling from explicit squeezes (independent of `sample_indices`' own loop)
fn ref_indices(sp: &Tip5, bound: u32, num: usize) -> (Vec<u64>, Tip5, usize, usize) {
    let mut s = sp.clone();
    let mut out = vec![];
    let mut squeezes = 0;
    let mut dropped = 0;
    'outer: while out.len() < num {
        let block = s.squeeze();
        squeezes += 1;
        for e in block {
            if out.len() == num {
                break 'outer;
            }
            if e.value() == P - 1 {
                dropped += 1;
            } else {
                out.push(((e.value() & 0xffff_ffff) % bound as u64) as u64);
            }
        }
    }
    (out, s, squeezes, dropped)
}

pub fn run_sponge(op: &str, a: &[Arg], st: &mut Stats) -> Option<Out> {
    Some(match (op, a) {
        ("rec_pad", [x]) => {
            let input = canon(x)?;
            let mut r = Recorder::init();
            r.pad_and_absorb_all(&input);
            let blocks: Vec<Vec<u64>> = r.blocks.iter().map(|b| vals(b)).collect();
            let flat: Vec<u64> = blocks.concat();
            let n = input.len();
            st.hit(&format!("pad:len-mod-rate={}", n % RATE));
            // property oracle: input, a single one, the fewest zeros completing a multiple of the rate
            let k = flat.len().wrapping_sub(n + 1);
            let ok = flat.len() >= n + 1
                && flat[..n] == vals(&input)[..]
                && flat[n] == 1
                && flat[n + 1..].iter().all(|&z| z == 0)
                && flat.len() % RATE == 0
                && k < RATE;
            Out::ok(format!("ok:{}", fmt_ll(&blocks))).with_oracle(ok, "absorbed blocks are not input ++ [1] ++ 0^k with k < RATE least")
        }
        ("new", [d]) => {
            let t = Tip5::new(if d.u64()? == 1 { Domain::FixedLength } else { Domain::VariableLength });
            let other = Tip5::new(if d.u64()? == 1 { Domain::VariableLength } else { Domain::FixedLength });
            Out::ok(format!("ok:{}", fmt_bfes(&t.state)))
                .with_oracle(t.state[RATE..] != other.state[RATE..], "domains share the initial capacity")
                .with_oracle(t.state[..RATE].iter().all(|e| e.value() == 0), "initial rate part not zero")
        }
        ("init", []) => {
            let t = Tip5::init();
            Out::ok(format!("ok:{}", fmt_bfes(&t.state))).with_oracle(t == Tip5::new(Domain::VariableLength), "init is not the variable-length domain")
        }
        ("absorb", [s, b]) => {
            let mut t = state(s)?;
            let block: [BFieldElement; RATE] = canon(b)?.try_into().ok()?;
            let mut want = t.clone();
            want.state[..RATE].copy_from_slice(&block);
            want.permutation();
            t.absorb(block);
            Out::ok(format!("ok:{}", fmt_bfes(&t.state))).with_oracle(t == want, "absorb is not overwrite-rate-then-permute")
        }
        ("squeeze", [s]) => {
            let mut t = state(s)?;
            let before = t.clone();
            let out = t.squeeze();
            let mut want = before.clone();
            want.permutation();
            Out::ok(format!("ok:{}|{}", fmt_bfes(&out), fmt_bfes(&t.state)))
                .with_oracle(out[..] == before.state[..RATE] && t == want, "squeeze is not output-rate-then-permute")
        }
        ("hash_varlen", [x]) => {
            let input = canon(x)?;
            let d = Tip5::hash_varlen(&input);
            // independent recomputation: explicit padding, explicit absorbs on a zero state, first five of the rate
            let mut padded = input.clone();
            padded.push(BFieldElement::new(1));
            while padded.len() % RATE != 0 {
                padded.push(BFieldElement::new(0));
            }
            let mut t = Tip5 { state: [BFieldElement::new(0); 16] };
            for c in padded.chunks(RATE) {
                t.state[..RATE].copy_from_slice(c);
                t.permutation();
            }
            st.hit(&format!("varlen:len-mod-rate={}", input.len() % RATE));
            Out::ok(format!("ok:{}", fmt_digest(&d))).with_oracle(d.values()[..] == t.state[..5], "hash_varlen differs from explicit pad/absorb/squeeze")
        }
        ("hash10", [x]) => {
            let input: [BFieldElement; 10] = canon(x)?.try_into().ok()?;
            let d = Tip5::hash_10(&input);
            let mut t = Tip5 { state: [BFieldElement::new(1); 16] };
            t.state[..RATE].copy_from_slice(&input);
            t.permutation();
            Out::ok(format!("ok:{}", fmt_bfes(&d))).with_oracle(d[..] == t.state[..5], "hash_10 does not start from the all-ones capacity")
        }
        ("hash_pair", [l, r]) => {
            let (l, r) = (l.digest()?, r.digest()?);
            let d = Tip5::hash_pair(l, r);
            let both: Vec<BFieldElement> = l.values().into_iter().chain(r.values()).collect();
            let h10 = Tip5::hash_10(&both.try_into().ok()?);
            Out::ok(format!("ok:{}", fmt_digest(&d))).with_oracle(d.values() == h10, "hash_pair differs from hash_10")
        }
        ("hist", [s, cs]) => {
            let mut t = state(s)?;
            let mut outs: Vec<Vec<u64>> = vec![];
            let mut bad: Option<String> = None;
            for c in cs.list()? {
                let c = c.u64s()?;
                match c.as_slice() {
                    [0, block @ ..] if block.len() == RATE => {
                        if block.iter().any(|&x| x >= P) {
                            return None;
                        }
                        let b: Vec<BFieldElement> = block.iter().map(|&x| BFieldElement::new(x)).collect();
                        t.absorb(b.try_into().ok()?);
                        outs.push(vec![]);
                        st.hit("hist:absorb");
                    }
                    [1] => {
                        outs.push(vals(&t.squeeze()));
                        st.hit("hist:squeeze");
                    }
                    [2, bound, num] => {
                        let bound = u32::try_from(*bound).ok()?;
                        let num = *num as usize;
                        let (want, want_state, squeezes, dropped) = ref_indices(&t, bound, num);
                        let got: Vec<u64> = t.sample_indices(bound, num).into_iter().map(|x| x as u64).collect();
                        st.hit(&format!("indices:dropped={}", dropped.min(11)));
                        st.hit(&format!("indices:squeezes={}", squeezes.min(5)));
                        st.hit(&format!("indices:num-mod-10={}", num % 10));
                        if bound == 1 {
                            st.hit("indices:bound=1");
                        }
                        if bound == 1 << 31 {
                            st.hit("indices:bound=2^31");
                        }
                        if got != want {
                            bad.get_or_insert("sample_indices: not the first n usable squeezed elements mod 2^32 mod bound".into());
                        }
                        if t != want_state {
                            bad.get_or_insert(format!("sample_indices: state is not the state after {} squeezes", squeezes));
                        }
                        if got.iter().any(|&i| i >= bound as u64) || got.len() != num {
                            bad.get_or_insert("sample_indices: range/count".into());
                        }
                        outs.push(got);
                    }
                    [3, num] => {
                        let num = *num as usize;
                        let k = (3 * num + RATE - 1) / RATE;
                        let mut r = t.clone();
                        let mut stream = vec![];
                        for _ in 0..k {
                            stream.extend(r.squeeze());
                        }
                        let got = t.sample_scalars(num);
                        let flat: Vec<u64> = got.iter().flat_map(|x| vals(&x.coefficients)).collect();
                        st.hit(&format!("scalars:3n-mod-10={}", (3 * num) % 10));
                        if flat[..] != vals(&stream)[..3 * num] {
                            bad.get_or_insert("sample_scalars: not the squeezed stream in groups of three".into());
                        }
                        if t != r {
                            bad.get_or_insert(format!("sample_scalars: state is not the state after {} squeezes", k));
                        }
                        outs.push(flat);
                    }
                    [4, input @ ..] => {
                        if input.iter().any(|&x| x >= P) {
                            return None;
                        }
                        let b: Vec<BFieldElement> = input.iter().map(|&x| BFieldElement::new(x)).collect();
                        t.pad_and_absorb_all(&b);
                        outs.push(vec![]);
                        st.hit("hist:pad_and_absorb_all");
                    }
                    _ => return None,
                }
            }
            let o = Out::ok(format!("ok:{}|{}", fmt_ll(&outs), fmt_bfes(&t.state)));
            match bad {
                Some(w) => o.with_oracle(false, w),
                None => o,
            }
        }
        _ => return super::c15bulk::run_sponge_more(op, a, st), // bulk / history ops (c15bulk.rs)
    })
}

// ---- generators ------------------------------------------------------------------------------------------------

fn elems(rng: &mut Rng, n: usize) -> Vec<u64> {
    match rng.below(8) {
        0 => vec![0; n],
        1 => vec![1; n],
        // inputs that look like padding
        2 => (0..n).map(|i| if i + 1 == n { 1 } else { 0 }).collect(),
        3 => (0..n).map(|_| rng.below(2)).collect(),
        _ => (0..n).map(|_| rng.fval()).collect(),
    }
}

/// a state whose rate part (= the next squeeze) contains p-1 at chosen positions
fn crafted_state(rng: &mut Rng) -> Vec<u64> {
    let mut s: Vec<u64> = (0..16).map(|_| rng.below(P)).collect();
    let pattern: Vec<usize> = match rng.below(8) {
        0 => vec![0],
        1 => vec![9],
        2 => vec![0, 9],
        3 => (0..10).collect(),
        4 => (0..9).collect(),
        5 => (1..10).collect(),
        6 => (0..10).filter(|_| rng.coin(1, 2)).collect(),
        _ => vec![],
    };
    for i in pattern {
        s[i] = P - 1;
    }
    // near misses must not be dropped
    if rng.coin(1, 4) {
        let i = rng.below(10) as usize;
        s[i] = *rng.pick(&[P - 2, 0xffff_ffff, 0xffff_ffff_0000_0000 - 1, 0xffff_fffe_ffff_ffff, 1 << 32, (1 << 32) - 1]);
    }
    s
}

fn command(rng: &mut Rng, thorough: bool) -> Vec<u64> {
    match rng.below(10) {
        0 | 1 => {
            let mut c = vec![0u64];
            c.extend(elems(rng, 10));
            c
        }
        2 => vec![1],
        3 | 4 | 5 | 6 => {
            let bound = 1u64 << *rng.pick(&[0u64, 1, 2, 4, 8, 16, 20, 30, 31, 31]);
            let num = match rng.below(6) {
                0 => 0,
                1 => 1,
                2 => *rng.pick(&[9u64, 10, 11, 19, 20, 21]),
                _ => rng.below(if thorough { 80 } else { 25 }),
            };
            vec![2, bound, num]
        }
        7 | 8 => {
            let num = match rng.below(4) {
                0 => 0,
                1 => *rng.pick(&[1u64, 3, 4, 6, 7, 10, 11, 20]),
                _ => rng.below(if thorough { 40 } else { 15 }),
            };
            vec![3, num]
        }
        _ => {
            let len = *rng.pick(&[0usize, 1, 9, 10, 11, 19, 20, 21]);
            let mut c = vec![4u64];
            c.extend(elems(rng, len));
            c
        }
    }
}

pub fn gen(rng: &mut Rng, thorough: bool, out: &mut Vec<String>) {
    let f = fmt_list_u64;
    out.push("sponge init".into());
    out.push("sponge new 0".into());
    out.push("sponge new 1".into());
    // padding: every length 0..=45 with several contents (including inputs that end in 1,0,0,... themselves)
    for len in 0..=45usize {
        for variant in 0..4 {
            let v: Vec<u64> = match variant {
                0 => vec![0; len],
                1 => (0..len).map(|i| if i + 1 == len { 1 } else { 0 }).collect(),
                2 => (0..len as u64).map(|i| i + 2).collect(),
                _ => elems(rng, len),
            };
            out.push(format!("sponge rec_pad {}", f(&v)));
            if variant >= 2 || len % 10 <= 1 || len % 10 == 9 {
                out.push(format!("sponge hash_varlen {}", f(&v)));
            }
        }
    }
    // directed sampling: p-1 at chosen positions of the first squeeze, every count around the block boundary
    let zero_tail: Vec<u64> = (10..16).map(|i| i as u64).collect();
    for pat in [vec![], vec![0], vec![9], vec![0, 9], vec![4, 5], (0..10).collect::<Vec<usize>>(), (0..9).collect(), (1..10).collect()] {
        let mut s: Vec<u64> = (0..10).map(|i| (i as u64 + 1) * 0x1_0000_0001).collect();
        for &i in &pat {
            s[i] = P - 1;
        }
        s.extend(&zero_tail);
        for num in [0u64, 1, 2, 8, 9, 10, 11, 12, 19, 20, 21] {
            for bound in [1u64, 2, 1 << 16, 1 << 31] {
                if bound != 1 << 16 && num > 11 {
                    continue;
                }
                out.push(format!("sponge hist {} [[2,{},{}]]", f(&s), bound, num));
            }
            out.push(format!("sponge hist {} [[2,1024,{}],[1]]", f(&s), num));
            out.push(format!("sponge hist {} [[3,{}],[1]]", f(&s), num));
        }
    }
    let n = if thorough { 120_000 } else { 2_500 };
    for i in 0..n {
        match i % 7 {
            0 => {
                let len = *rng.pick(&[0usize, 1, 5, 9, 10, 11, 19, 20, 21, 29, 30, 31, 50]) + rng.below(2) as usize * 100 * (thorough as usize);
                out.push(format!("sponge rec_pad {}", f(&elems(rng, len))));
            }
            1 => {
                let len = *rng.pick(&[0usize, 1, 9, 10, 11, 19, 20, 21, 30]);
                out.push(format!("sponge hash_varlen {}", f(&elems(rng, len))));
            }
            2 => match rng.below(4) {
                0 => out.push(format!("sponge hash10 {}", f(&elems(rng, 10)))),
                1 => out.push(format!("sponge hash_pair {} {}", f(&elems(rng, 5)), f(&elems(rng, 5)))),
                2 => out.push(format!("sponge absorb {} {}", f(&crafted_state(rng)), f(&elems(rng, 10)))),
                _ => out.push(format!("sponge squeeze {}", f(&crafted_state(rng)))),
            },
            _ => {
                // a history from a crafted state (p-1 in the first squeeze) or from init / new(FixedLength)
                let s = match rng.below(6) {
                    0 => vec![0u64; 16],
                    1 => {
                        let mut v = vec![0u64; 10];
                        v.extend(vec![1u64; 6]);
                        v
                    }
                    _ => crafted_state(rng),
                };
                let k = 1 + rng.below(if thorough { 8 } else { 5 });
                let cmds: Vec<String> = (0..k).map(|_| f(&command(rng, thorough))).collect();
                out.push(format!("sponge hist {} [{}]", f(&s), cmds.join(",")));
            }
        }
    }
}
